(* Column-pass (dim = 2) normal forms of afb1d / sfb1d: the mirror images of Proofs/DwtNF.v and Proofs/SfbNF.v. *)
From PW Require Import Base.Ops Base.Sum Base.Sig Base.Tensor Model.Dwt Spec.Line Proofs.ConvLine Proofs.DwtNF Proofs.LineTheory Proofs.SfbNF.
Ltac Zify.zify_post_hook ::= Z.to_euclidean_division_equations.

Section S.
Context {R:Type} (Op:Ops R) (Rth: RingOk Op).
Add Ring Rr : Rth.
Notation ten := (@ten R).
Infix "+r" := (radd Op) (at level 50, left associativity).
Infix "*r" := (rmul Op) (at level 40, left associativity).
Notation sumZ := (sumZ Op).

Definition afb_col_spec (x:ten) (Hout:Z) (line:Z->Z->Z->Z->R) (y:ten) : Prop :=
  tN y = tN x /\ tC y = 2 * tC x /\ tH y = Hout /\ tW y = tW x /\
  forall n oc k j, 0 <= k < Hout -> 0 <= j < tW x -> tf y n oc k j = line n oc k j.

Lemma colz_zpad_after x n c j q : colz Op (t_zpad Op 0 0 0 1 x) n c j q = colz Op x n c j q.
Proof. unfold colz, t_zpad; cbn [tf tH tW]. unfold inr.
  destruct (Z_le_gt_dec 0 j), (Z_lt_ge_dec j (tW x)), (Z_le_gt_dec 0 q), (Z_lt_ge_dec q (tH x));
  repeat match goal with |- context[?a <=? ?b] => (replace (a <=? b) with true by lia) || (replace (a <=? b) with false by lia) end;
  repeat match goal with |- context[?a <? ?b] => (replace (a <? b) with true by lia) || (replace (a <? b) with false by lia) end;
  cbn [andb]; try reflexivity.
  all: try (replace (j - 0) with j by lia; replace (q - 0) with q by lia; reflexivity).
  all: destruct (Z_lt_ge_dec q (tH x + 0 + 1));
   repeat match goal with |- context[?a <? ?b] => (replace (a <? b) with true by lia) || (replace (a <? b) with false by lia) end; cbn [andb]; reflexivity.
Qed.

Theorem afb1d_zero_col x L h0 h1 : 2 <= L -> 1 <= tW x -> 1 <= tH x -> 0 < tC x ->
  is_ok (afb1d Op x L h0 h1 M_ZERO 2)
    (afb_col_spec x ((tH x + L - 1)/2) (fun n oc k j => ana Op L (hsel h0 h1 oc) (colz Op x n (oc/2) j) k)).
Proof.
  intros HL HW HH HC. unfold afb1d, dlen, dwt_coeff_len. rewrite strides2.
  change (M_ZERO =? M_PER) with false. change (M_ZERO =? M_ZERO) with true.
  change (2 =? 2) with true. cbv iota. rewrite along2.
  rewrite pad_half by lia.
  set (p := 2 * ((tH x + L - 1) / 2 - 1) - tH x + L).
  set (x1 := force Op _).
  assert (Hs: tN x1 = tN x /\ tC x1 = tC x /\ tW x1 = tW x /\ tH x1 = tH x + (if p mod 2 =? 1 then 1 else 0)).
  { unfold x1. destruct (p mod 2 =? 1); cbn [force tN tC tH tW t_zpad]; repeat apply conj; lia. }
  assert (Hr: forall n c j q, colz Op x1 n c j q = colz Op x n c j q).
  { intros. unfold x1. rewrite colz_force. destruct (p mod 2 =? 1); [apply colz_zpad_after | reflexivity]. }
  destruct Hs as (Hs1 & Hs2 & Hs3 & Hs4).
  unfold w_afb. rewrite conv2d_r_col by (destruct (p mod 2 =? 1) eqn:E; unfold p in *; lia).
  cbn [bind is_ok]. unfold afb_col_spec. cbn [force tN tC tH tW conv2d_dw]. rewrite w_line2; cbn [wO wKH wKW].
  repeat apply conj; try lia.
  - rewrite Hs4. destruct (p mod 2 =? 1) eqn:E; unfold p in *; lia.
  - intros n oc k j _ _. rewrite force_eq. rewrite <- w_line2. rewrite conv_col by exact Rth.
    unfold ana. apply sumZ_ext. intros b Hb. rewrite Hr. rewrite Hs2.
    replace (2 * tC x / tC x) with 2 by (symmetry; apply Z.div_mul; lia).
    unfold hsel. f_equal. destruct (oc mod 2 =? 0); reflexivity. f_equal. lia.
Qed.

Theorem afb1d_gather_col x L h0 h1 mode : 2 <= L -> 1 <= tW x -> 1 <= tH x -> 0 < tC x ->
  gather_mode_ok mode (tH x) (L-2) ((2 * ((tH x + L - 1)/2 - 1) - tH x + L + 1)/2) ->
  is_ok (afb1d Op x L h0 h1 mode 2)
    (afb_col_spec x ((tH x + L - 1)/2) (fun n oc k j =>
       ana Op L (hsel h0 h1 oc) (fun q => tf x n (oc/2) (pad_idx mode (tH x) 0 q) j) k)).
Proof.
  intros HL HW HH HC Hm.
  assert (Hmode: (mode =? M_PER) = false /\ (mode =? M_ZERO) = false /\
                 ((mode =? M_SYMM) || (mode =? M_REFLECT) || (mode =? M_PERIODIC)) = true).
  { destruct Hm as [H|[H|(H & _)]]; subst mode; repeat split; reflexivity. }
  destruct Hmode as (Hm1 & Hm2 & Hm3).
  unfold afb1d, dwt_coeff_len. rewrite strides2, Hm1, Hm2, Hm3. cbv iota.
  change (dlen 2 x) with (tH x). rewrite pad_half by lia.
  set (p := 2 * ((tH x + L - 1) / 2 - 1) - tH x + L) in *.
  destruct (mypad_gather Op 2 (L-2) ((p+1)/2) mode x) as (idx & Hpad & Hidx); [change (dlen 2 x) with (tH x); lia | exact Hm |].
  change (dlen 2 x) with (tH x) in *. rewrite Hpad. cbn [bind].
  unfold w_afb. rewrite conv2d_r_col by (unfold t_gather; change (2 =? 2) with true; cbv iota; cbn [force tH tW]; unfold p; lia).
  cbn [bind is_ok]. unfold afb_col_spec. cbn [force tN tC tH tW conv2d_dw]. rewrite w_line2; cbn [wO wKH wKW].
  unfold t_gather. change (2 =? 2) with true. cbv iota. cbn [tN tC tH tW].
  repeat apply conj; try (unfold p; lia).
  intros n oc k j Hk Hj. rewrite force_eq. rewrite <- w_line2. rewrite conv_col by exact Rth.
  unfold ana. apply sumZ_ext. intros b Hb. rewrite colz_force. unfold colz. cbn [tf tH tW tC].
  replace (inr (tH x + (L - 2) + (p + 1) / 2) (k * 2 + b * 1 - 0) && inr (tW x) j) with true
    by (unfold inr, p in *; lia).
  cbn [force tC].
  replace (2 * tC x / tC x) with 2 by (symmetry; apply Z.div_mul; lia).
  rewrite Hidx. unfold hsel. f_equal. destruct (oc mod 2 =? 0); reflexivity.
  f_equal. unfold pad_idx. destruct (mode =? M_SYMM); [|destruct (mode =? M_PERIODIC)]; f_equal; lia.
Qed.

Lemma roll_col (x:ten) s : 0 < s < tH x ->
  let y := roll x (-s) 2 in
  tN y = tN x /\ tC y = tC x /\ tH y = tH x /\ tW y = tW x /\
  forall n c q j, 0 <= q < tH x -> tf y n c q j = tf x n c ((q + s) mod tH x) j.
Proof.
  intros Hs. unfold roll, dlen. change (2 =? 2) with true. cbv iota.
  replace (- s <? 0) with true by lia.
  unfold pyclip. replace (- (tH x + - s) <? 0) with true by lia.
  replace (Z.max 0 (tH x + - (tH x + - s))) with s by lia.
  unfold t_slice, t_gather, t_cat. change (2 =? 2) with true. change (2 =? 1) with false. cbv iota. cbn [tN tC tH tW tf].
  unfold range_len. replace (tH x <=? s) with false by lia. replace (s <=? 0) with false by lia.
  repeat apply conj; try lia.
  intros n c q j Hq.
  destruct (q <? (tH x - s + 1 - 1) / 1) eqn:E.
  - f_equal. rewrite Z.mod_small by lia. lia.
  - f_equal. replace (q + s) with ((q + s - tH x) + 1 * tH x) by lia. rewrite Z.mod_add by lia.
    rewrite Z.mod_small by lia. lia.
Qed.

Definition afb_per_col_line (x:ten) (L:Z) (h0 h1:Z->R) n oc k j : R :=
  ana_per Op L (even_len (tH x)) (hsel h0 h1 oc) (even_ext (tH x) (fun q => tf x n (oc/2) q j)) k.

Theorem afb1d_per_col x L h0 h1 : 2 <= L -> L mod 2 = 0 -> L <= even_len (tH x) -> 1 <= tW x -> 1 <= tH x -> 0 < tC x ->
  is_ok (afb1d Op x L h0 h1 M_PER 2) (afb_col_spec x (even_len (tH x) / 2) (afb_per_col_line x L h0 h1)).
Proof.
  intros HL HLe HLN HW HH HC. unfold afb1d, dlen. rewrite strides2.
  change (M_PER =? M_PER) with true. change (2 =? 2) with true. cbv iota. rewrite along2.
  set (N := tH x) in *.
  set (x1 := if N mod 2 =? 1 then _ else x).
  set (N1 := if N mod 2 =? 1 then N + 1 else N).
  assert (HN1: N1 = even_len N) by reflexivity.
  assert (Hx1: tN x1 = tN x /\ tC x1 = tC x /\ tW x1 = tW x /\ tH x1 = N1 /\
               forall n c q j, 0 <= q < N1 -> tf x1 n c q j = even_ext N (fun q => tf x n c q j) q).
  { unfold x1, N1, even_ext. destruct (N mod 2 =? 1) eqn:E.
    - unfold t_cat, t_slice, t_gather, pyclip, range_len. change (2 =? 1) with false. change (2 =? 2) with true. cbv iota.
      replace (-1 <? 0) with true by lia. replace (N <=? Z.max 0 (N + -1)) with false by lia.
      cbn [tN tC tH tW tf]. fold N. repeat apply conj; try lia.
      intros n c q j Hq. destruct (q <? N) eqn:Eq; [reflexivity|]. f_equal. lia.
    - repeat apply conj; try reflexivity. intros n c q j Hq. replace (q <? N) with true by lia. reflexivity. }
  destruct Hx1 as (A1 & A2 & A3 & A4 & A5).
  assert (HL2: 0 < L/2 < tH x1) by (rewrite A4, HN1; unfold even_len in *; destruct (N mod 2 =? 1); lia).
  pose proof (roll_col x1 (L/2) HL2) as Hr. cbv zeta in Hr. destruct Hr as (B1 & B2 & B3 & B4 & B5).
  set (x2 := force Op (roll x1 (- (L/2)) 2)).
  unfold w_afb.
  assert (HN1pos: N <= N1 <= N + 1) by (unfold N1; destruct (N mod 2 =? 1); lia).
  rewrite conv2d_r_col by (unfold x2; cbn [force tH tW]; rewrite ?B3, ?B4, ?A3, ?A4; lia).
  cbn [bind].
  set (lohi := force Op (conv2d_dw Op x2 _ 2 1 (L-1) 0 1 1)).
  assert (Hlh: tH lohi = N1/2 + L/2).
  { unfold lohi. cbn [force tH conv2d_dw]. rewrite w_line2; cbn [wKH]. unfold x2; cbn [force tH]. rewrite B3, A4.
    rewrite HN1 in *. unfold even_len in *. destruct (N mod 2 =? 1) eqn:E; lia. }
  assert (Hlo: tW lohi = tW x /\ tN lohi = tN x /\ tC lohi = 2 * tC x).
  { unfold lohi. cbn [force tN tC tW conv2d_dw]. rewrite w_line2; cbn [wKW wO]. unfold x2; cbn [force tW tN tC]. rewrite ?B4, ?A3, ?B1, ?A1, ?A2. repeat split; lia. }
  destruct Hlo as (C1 & C2 & C3).
  unfold fold_add, dlen. change (2 =? 2) with true. cbv iota. rewrite Hlh.
  assert (HN1e: N1 mod 2 = 0) by (rewrite HN1; unfold even_len; destruct (N mod 2 =? 1) eqn:E; lia).
  unfold pyclip.
  replace (L/2 <? 0) with false by lia. replace (N1/2 + L/2 <? 0) with false by lia. replace (N1/2 <? 0) with false by lia.
  replace (Z.min (N1/2 + L/2) (L/2)) with (L/2) by lia.
  replace (Z.min (N1/2 + L/2) (N1/2 + L/2)) with (N1/2 + L/2) by lia.
  replace (Z.min (N1/2 + L/2) (N1/2)) with (N1/2) by lia.
  replace (L/2 =? N1/2 + L/2 - N1/2) with true by lia.
  cbn [bind is_ok tH].
  replace (Z.min (N1/2 + L/2) (N1/2)) with (N1/2) by lia.
  unfold afb_col_spec, t_slice, t_gather. change (2 =? 2) with true. cbv iota. cbn [force tN tC tH tW].
  unfold range_len. replace (N1/2 <=? 0) with false by lia.
  repeat apply conj; try lia.
  intros n oc k j Hk Hj. rewrite <- HN1 in Hk. rewrite force_eq. cbn [tf].
  replace (0 + 1 * k) with k by lia.
  assert (Hlohi: forall k', 0 <= k' < N1/2 + L/2 -> tf lohi n oc k' j =
            sumZ 0 L (fun b => hsel h0 h1 oc b *r (if inr N1 (2*k' + b - (L-1)) then even_ext N (fun q => tf x n (oc/2) q j) ((2*k' + b - (L-1) + L/2) mod N1) else r0 Op))).
  { intros k' Hk'. unfold lohi. rewrite force_eq. rewrite conv_col by exact Rth. apply sumZ_ext. intros b Hb.
    unfold hsel at 1. f_equal. destruct (oc mod 2 =? 0); reflexivity.
    unfold x2. rewrite colz_force. unfold colz. rewrite B3, A4, B4, A3. rewrite (inr_true (tW x) j) by lia. rewrite andb_true_r.
    cbn [force tC]. rewrite B2, A2. replace (2 * tC x / tC x) with 2 by (symmetry; apply Z.div_mul; lia).
    replace (k' * 2 + b * 1 - (L - 1)) with (2 * k' + b - (L-1)) by lia.
    destruct (inr N1 (2 * k' + b - (L - 1))) eqn:E; [|reflexivity].
    unfold inr in E. rewrite B5 by lia. rewrite A4. apply A5. apply Z.mod_pos_bound. lia. }
  unfold afb_per_col_line, ana_per. fold N. rewrite <- HN1.
  destruct (k <? L/2) eqn:Ek.
  - rewrite !Hlohi by lia. rewrite <- sumZ_add by exact Rth. apply sumZ_ext. intros b Hb.
    destruct (Z_le_gt_dec 0 (2*k + b - (L-1))) as [Hp|Hp].
    + rewrite (inr_true N1 (2*k + b - (L-1))) by lia. rewrite (inr_false N1 (2*(N1/2 + k) + b - (L-1))) by lia. ring.
    + rewrite (inr_false N1 (2*k + b - (L-1))) by lia. rewrite (inr_true N1 (2*(N1/2 + k) + b - (L-1))) by lia.
      replace ((2 * (N1 / 2 + k) + b - (L - 1) + L / 2) mod N1) with ((2 * k + b - (L - 1) + L / 2) mod N1).
      ring.
      replace (2 * (N1 / 2 + k) + b - (L - 1) + L / 2) with ((2 * k + b - (L - 1) + L / 2) + 1 * N1) by lia.
      rewrite Z.mod_add by lia. reflexivity.
  - rewrite Hlohi by lia. apply sumZ_ext. intros b Hb. rewrite (inr_true N1 (2*k + b - (L-1))) by lia. reflexivity.
Qed.

(* ---- synthesis, column pass ---- *)
Lemma convT2d_r_col (x:ten) L (hs:Z->Z->R) sh ph :
  1 <= tW x -> 0 <= ph -> 1 <= (tH x - 1)*sh - 2*ph + L ->
  convT2d_r Op x (w_line 2 (tC x) L hs) sh 1 ph 0 = Ok (convT2d_dw Op x (w_line 2 (tC x) L hs) sh 1 ph 0).
Proof. intros. unfold convT2d_r. rewrite w_line2. cbn [wKH wKW].
  replace (_ && _ && _ && _) with true by lia. reflexivity. Qed.

Definition sfb_col_spec (lo:ten) (Hout:Z) (line:Z->Z->Z->Z->R) (y:ten) : Prop :=
  tN y = tN lo /\ tC y = tC lo /\ tH y = Hout /\ tW y = tW lo /\
  forall n c m j, 0 <= m < Hout -> 0 <= j < tW lo -> tf y n c m j = line n c m j.

Theorem sfb1d_nonper_col lo hi L g0 g1 mode : nonper_mode mode -> same_shape lo hi = true ->
  2 <= L -> 1 <= tW lo -> 1 <= 2 * tH lo - L + 2 ->
  is_ok (sfb1d Op lo hi L g0 g1 mode 2)
    (sfb_col_spec lo (2 * tH lo - L + 2)
       (fun n c m j => syn Op L (tH lo) g0 g1 (fun k => tf lo n c k j) (fun k => tf hi n c k j) m)).
Proof.
  intros Hm Hs HL HW HH. destruct (same_shape_eq _ _ Hs) as (E1 & E2 & E3 & E4).
  assert (Hmode: (mode =? M_PER) = false /\ ((mode =? M_ZERO) || (mode =? M_SYMM) || (mode =? M_REFLECT) || (mode =? M_PERIODIC)) = true).
  { destruct Hm as [H|[H|[H|H]]]; subst mode; split; reflexivity. }
  destruct Hmode as (Hm1 & Hm2).
  unfold sfb1d. rewrite strides2, Hs, Hm1, Hm2. cbn [negb]. cbv iota. rewrite along2.
  rewrite convT2d_r_col by lia. cbn [bind].
  rewrite E2. rewrite convT2d_r_col by lia. cbn [bind is_ok].
  unfold sfb_col_spec. cbn [force t_add tN tC tH tW convT2d_dw]. rewrite w_line2; cbn [wKH wKW].
  repeat apply conj; try lia.
  intros n c m j Hm' Hj. rewrite force_eq. cbn [t_add tf]. rewrite <- !w_line2.
  rewrite <- E2 at 1. rewrite !convT_col by (exact Rth || lia).
  unfold syn. rewrite <- E3. rewrite <- sumZ_add by exact Rth. apply sumZ_ext. intros k Hk.
  replace (m + (L-2) - k*2) with (m + (L-2) - 2*k) by lia. reflexivity.
Qed.

Lemma roll_col_any (x:ten) s : 0 <= s < tH x ->
  let y := roll x (-s) 2 in
  tN y = tN x /\ tC y = tC x /\ tH y = tH x /\ tW y = tW x /\
  forall n c q j, 0 <= q < tH x -> tf y n c q j = tf x n c ((q + s) mod tH x) j.
Proof.
  intros Hs. destruct (Z.eq_dec s 0) as [->|Hne]; [|apply roll_col; lia].
  unfold roll, dlen. change (2 =? 2) with true. cbv iota. change (-0 <? 0) with false. cbv iota.
  change (- -0) with 0. unfold pyclip. change (0 <? 0) with false. cbv iota.
  replace (Z.min (tH x) 0) with 0 by lia.
  unfold t_slice, t_gather, t_cat. change (2 =? 2) with true. change (2 =? 1) with false. cbv iota. cbn [tN tC tH tW tf].
  unfold range_len. replace (tH x <=? 0) with false by lia. change (0 <=? 0) with true. cbv iota.
  repeat apply conj; try lia.
  intros n c q j Hq. replace (q <? (tH x - 0 + 1 - 1)/1) with true by lia.
  rewrite Z.add_0_r. rewrite Z.mod_small by lia. f_equal. lia.
Qed.

Theorem sfb1d_per_col lo hi L g0 g1 : same_shape lo hi = true ->
  2 <= L -> L mod 2 = 0 -> 1 <= tH lo -> 1 <= tW lo -> L - 2 <= 2 * tH lo ->
  is_ok (sfb1d Op lo hi L g0 g1 M_PER 2)
    (sfb_col_spec lo (2 * tH lo)
       (fun n c m j => syn_per Op L (tH lo) g0 g1 (fun k => tf lo n c k j) (fun k => tf hi n c k j) m)).
Proof.
  intros Hs HL HLe HH HW HLN. destruct (same_shape_eq _ _ Hs) as (E1 & E2 & E3 & E4).
  unfold sfb1d. rewrite strides2, Hs. cbn [negb]. change (M_PER =? M_PER) with true. cbv iota.
  rewrite convT2d_r_col by lia. cbn [bind]. rewrite E2. rewrite convT2d_r_col by lia. cbn [bind].
  set (y := force Op (t_add Op _ _)).
  assert (Hy: tN y = tN lo /\ tC y = tC lo /\ tW y = tW lo /\ tH y = 2 * tH lo + L - 2).
  { unfold y. cbn [force t_add tN tC tH tW convT2d_dw]. rewrite w_line2; cbn [wKH wKW]. repeat apply conj; lia. }
  destruct Hy as (Y1 & Y2 & Y3 & Y4).
  assert (Hyv: forall n c m j, 0 <= j < tW lo -> tf y n c m j = syn_full Op L (tH lo) g0 g1 (fun k => tf lo n c k j) (fun k => tf hi n c k j) m).
  { intros n c m j Hj. unfold y. rewrite force_eq. cbn [t_add tf]. rewrite <- E2 at 1.
    rewrite !convT_col by (exact Rth || lia). unfold syn_full. rewrite <- E3. rewrite <- sumZ_add by exact Rth.
    apply sumZ_ext. intros k Hk. replace (m + 0 - k*2) with (m - 2*k) by lia. reflexivity. }
  unfold fold_add, dlen. change (2 =? 2) with true. cbv iota. rewrite Y4. unfold pyclip.
  replace (L - 2 <? 0) with false by lia. replace (2 * tH lo + (L - 2) <? 0) with false by lia. replace (2 * tH lo <? 0) with false by lia.
  replace (Z.min (2 * tH lo + L - 2) (L - 2)) with (L-2) by lia.
  replace (Z.min (2 * tH lo + L - 2) (2 * tH lo + (L - 2))) with (2 * tH lo + (L-2)) by lia.
  replace (Z.min (2 * tH lo + L - 2) (2 * tH lo)) with (2 * tH lo) by lia.
  replace (L - 2 =? 2 * tH lo + (L - 2) - 2 * tH lo) with true by lia.
  cbn [bind tH].
  replace (Z.min (2 * tH lo + L - 2) (2 * tH lo)) with (2 * tH lo) by lia.
  set (y2 := force Op (t_slice 2 0 (2 * tH lo) 1 _)).
  assert (Hy2: tN y2 = tN lo /\ tC y2 = tC lo /\ tW y2 = tW lo /\ tH y2 = 2 * tH lo).
  { unfold y2, t_slice, t_gather. change (2 =? 2) with true. cbv iota. cbn [force tN tC tH tW]. unfold range_len.
    replace (2 * tH lo <=? 0) with false by lia. repeat apply conj; lia. }
  destruct Hy2 as (Z1 & Z2 & Z3 & Z4).
  assert (Hy2v: forall n c m j, 0 <= m < 2 * tH lo -> tf y2 n c m j =
     if m <? L - 2 then tf y n c m j +r tf y n c (2 * tH lo + m) j else tf y n c m j).
  { intros n c m j Hm. unfold y2. rewrite force_eq. unfold t_slice, t_gather. change (2 =? 2) with true. cbv iota. cbn [tf].
    replace (0 + 1 * m) with m by lia. reflexivity. }
  replace (1 - L/2) with (- (L/2 - 1)) by lia.
  pose proof (roll_col_any y2 (L/2 - 1)) as Hr. rewrite Z4 in Hr. specialize (Hr ltac:(lia)). cbv zeta in Hr.
  destruct Hr as (B1 & B2 & B3 & B4 & B5).
  cbn [is_ok]. unfold sfb_col_spec. cbn [force tN tC tH tW]. repeat apply conj; try lia.
  intros n c m j Hm Hj. rewrite force_eq. rewrite B5 by lia.
  rewrite <- (syn_per_fold Op Rth) by lia. unfold syn_per_code. cbv zeta.
  assert (0 <= (m + (L/2 - 1)) mod (2 * tH lo) < 2 * tH lo) by (apply Z.mod_pos_bound; lia).
  rewrite Hy2v by lia. rewrite !Hyv by lia. reflexivity.
Qed.
End S.
