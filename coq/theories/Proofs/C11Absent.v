(* C11: absent inputs of one q-shift level of the inverse are zeros: inv_j2plus with the lowpass absent (None) equals inv_j2plus
   with a lowpass of zeros of the size the level expects, and with the highpass level absent (no planes) it equals inv_j2plus with
   twelve planes of zeros, on the tensor-level model, for every size and filters. *)
From PW Require Import Base.Ops Base.Sum Base.Sig Base.Tensor Model.Dwt Model.Dtcwt Spec.Line Spec.DtcwtRef
  Proofs.DwtNF Proofs.SfbNF Proofs.DtcwtNF Proofs.DtcwtNFrow Proofs.QuadProofs Proofs.QshiftTensor Proofs.QshiftLevel.
Ltac Zify.zify_post_hook ::= Z.to_euclidean_division_equations.

Section S.
Context {R:Type} (Op:Ops R) (Rth: RingOk Op).
Add Ring Rr : Rth.
Notation ten := (@ten R).
Infix "+r" := (radd Op) (at level 50, left associativity).
Infix "*r" := (rmul Op) (at level 40, left associativity).
Notation sumZ := (sumZ Op).

Lemma ref_colifilt_zero m r' ga gb (g:Z->R) pos u : (forall k, g k = r0 Op) -> ref_colifilt Op m r' ga gb g pos u = r0 Op.
Proof.
  intros Hz. unfold ref_colifilt. cbv zeta.
  assert (E: forall f p c i, ibranch Op (m/2) r' f p c g i = r0 Op).
  { intros f p c i. unfold ibranch. apply (sumZ_zero Op Rth). intros k Hk. unfold ext_sym. rewrite Hz. ring. }
  repeat match goal with |- context [if ?b then _ else _] => destruct b end; apply E.
Qed.

(* the interpolating filter is determined by the values of its input on the extent, and maps zeros to zeros *)
Lemma ifilt_col_ext (A B:ten) L HA HB (hp:bool) : 2 <= L -> L mod 2 = 0 -> 2 <= tH A -> tH A mod 2 = 0 -> 1 <= tW A -> 0 < tC A ->
  same_on A B ->
  is_ok (ifilt Op 2 A L (rev_filt L HA) (rev_filt L HB) hp) (fun ya => is_ok (ifilt Op 2 B L (rev_filt L HA) (rev_filt L HB) hp) (fun yb =>
    same_on ya yb /\ tH ya = 2 * tH A /\ tW ya = tW A /\ tN ya = tN A /\ tC ya = tC A)).
Proof.
  intros HL HLe HH H2 HW HC (S1 & S2 & S3 & S4 & S5).
  pose proof (ifilt_ref_col Op Rth A L HA HB hp HL HLe HH H2 HW HC) as Ha.
  pose proof (ifilt_ref_col Op Rth B L HA HB hp HL HLe ltac:(lia) ltac:(lia) ltac:(lia) ltac:(lia)) as Hb.
  destruct (ifilt Op 2 A L _ _ hp) as [ya|]; [|contradiction]. destruct (ifilt Op 2 B L _ _ hp) as [yb|]; [|contradiction]. cbn [is_ok] in *.
  destruct Ha as (A1 & A2 & A3 & A4 & A5). destruct Hb as (B1 & B2 & B3 & B4 & B5).
  unfold same_on. repeat apply conj; try lia.
  intros n c i j Hc Hi Hj. rewrite B5 by lia. rewrite A5 by lia. rewrite S3.
  apply (ref_colifilt_ext Op L (tH A) HA HB); [lia|]. intros k Hk. apply S5; lia.
Qed.
Lemma ifilt_row_ext (A B:ten) L HA HB (hp:bool) : 2 <= L -> L mod 2 = 0 -> 2 <= tW A -> tW A mod 2 = 0 -> 1 <= tH A -> 0 < tC A ->
  same_on A B ->
  is_ok (ifilt Op 3 A L (rev_filt L HA) (rev_filt L HB) hp) (fun ya => is_ok (ifilt Op 3 B L (rev_filt L HA) (rev_filt L HB) hp) (fun yb =>
    same_on ya yb /\ tW ya = 2 * tW A /\ tH ya = tH A /\ tN ya = tN A /\ tC ya = tC A)).
Proof.
  intros HL HLe HH H2 HW HC (S1 & S2 & S3 & S4 & S5).
  pose proof (ifilt_ref_row Op Rth A L HA HB hp HL HLe HH H2 HW HC) as Ha.
  pose proof (ifilt_ref_row Op Rth B L HA HB hp HL HLe ltac:(lia) ltac:(lia) ltac:(lia) ltac:(lia)) as Hb.
  destruct (ifilt Op 3 A L _ _ hp) as [ya|]; [|contradiction]. destruct (ifilt Op 3 B L _ _ hp) as [yb|]; [|contradiction]. cbn [is_ok] in *.
  destruct Ha as (A1 & A2 & A3 & A4 & A5). destruct Hb as (B1 & B2 & B3 & B4 & B5).
  unfold same_on. repeat apply conj; try lia.
  intros n c i j Hc Hi Hj. rewrite B5 by lia. rewrite A5 by lia. rewrite S4.
  apply (ref_colifilt_ext Op L (tW A) HA HB); [lia|]. intros k Hk. apply S5; lia.
Qed.
Lemma ifilt_col_zero (Z0:ten) L HA HB (hp:bool) : 2 <= L -> L mod 2 = 0 -> 2 <= tH Z0 -> tH Z0 mod 2 = 0 -> 1 <= tW Z0 -> 0 < tC Z0 ->
  (forall n c i j, tf Z0 n c i j = r0 Op) ->
  is_ok (ifilt Op 2 Z0 L (rev_filt L HA) (rev_filt L HB) hp) (fun y =>
    tH y = 2 * tH Z0 /\ tW y = tW Z0 /\ tN y = tN Z0 /\ tC y = tC Z0 /\
    forall n c i j, 0 <= c < tC Z0 -> 0 <= i < 2 * tH Z0 -> 0 <= j < tW Z0 -> tf y n c i j = r0 Op).
Proof.
  intros HL HLe HH H2 HW HC Hz.
  pose proof (ifilt_ref_col Op Rth Z0 L HA HB hp HL HLe HH H2 HW HC) as Ha.
  destruct (ifilt Op 2 Z0 L _ _ hp) as [y|]; [|contradiction]. cbn [is_ok] in *. destruct Ha as (A1 & A2 & A3 & A4 & A5).
  repeat apply conj; try lia. intros n c i j Hc Hi Hj. rewrite A5 by lia. apply ref_colifilt_zero. intros k. apply Hz.
Qed.

Variable s : R.
(* lowpass absent = lowpass of zeros *)
Theorem inv_j2plus_none_low (hs:list ten) (Z0:ten) L (G0A G0B G1A G1B:Z->R) :
  2 <= L -> L mod 2 = 0 ->
  length hs = 12%nat ->
  let '(lh, hl, hh) := orientations_to_highs Op s hs in
  2 <= tH lh -> tH lh mod 2 = 0 -> 2 <= tW lh -> tW lh mod 2 = 0 -> 0 < tC lh ->
  same_shape lh hl = true -> same_shape lh hh = true -> same_shape lh Z0 = true ->
  (forall n c i j, tf Z0 n c i j = r0 Op) ->
  is_ok (inv_j2plus Op s None hs L (rev_filt L G0B) (rev_filt L G0A) L (rev_filt L G1B) (rev_filt L G1A)) (fun y0 =>
  is_ok (inv_j2plus Op s (Some Z0) hs L (rev_filt L G0B) (rev_filt L G0A) L (rev_filt L G1B) (rev_filt L G1A)) (fun y1 => same_on y0 y1)).
Proof.
  intros HL HLe Hlen.
  destruct hs as [|p0 hs]; [discriminate|]. unfold inv_j2plus.
  destruct (orientations_to_highs Op s (p0 :: hs)) as ((lh, hl), hh).
  intros HH HHe HW HWe HC Ss1 Ss2 Ss3 Hz.
  destruct (same_shape_eq _ _ Ss1) as (E1 & E2 & E3 & E4). destruct (same_shape_eq _ _ Ss2) as (F1 & F2 & F3 & F4). destruct (same_shape_eq _ _ Ss3) as (K1 & K2 & K3 & K4).
  (* the highpass branch is common *)
  destruct (radd_res Op (ifilt Op 2 hh L (rev_filt L G1A) (rev_filt L G1B) true) (ifilt Op 2 hl L (rev_filt L G0A) (rev_filt L G0B) false)) as [hi|] eqn:Ehi; cbn [bind].
  2:{ cbn [is_ok]. 
      (* cannot fail: both filters succeed on these shapes *)
      exfalso. unfold radd_res in Ehi.
      pose proof (ifilt_ref_col Op Rth hh L G1A G1B true HL HLe ltac:(lia) ltac:(lia) ltac:(lia) ltac:(lia)) as A.
      pose proof (ifilt_ref_col Op Rth hl L G0A G0B false HL HLe ltac:(lia) ltac:(lia) ltac:(lia) ltac:(lia)) as B.
      destruct (ifilt Op 2 hh L _ _ true) as [ya|]; [|contradiction]. destruct (ifilt Op 2 hl L _ _ false) as [yb|]; [|contradiction].
      cbn [is_ok bind] in *. destruct A as (A1 & A2 & A3 & A4 & _). destruct B as (B1 & B2 & B3 & B4 & _).
      replace (same_shape ya yb) with true in Ehi by (unfold same_shape; lia). discriminate Ehi. }
  (* the lowpass branch *)
  pose proof (ifilt_ref_col Op Rth lh L G1A G1B true HL HLe HH HHe ltac:(lia) HC) as Alh.
  pose proof (ifilt_col_zero Z0 L G0A G0B false HL HLe ltac:(lia) ltac:(lia) ltac:(lia) ltac:(lia) Hz) as Az.
  unfold radd_res at 2.
  destruct (ifilt Op 2 lh L (rev_filt L G1A) (rev_filt L G1B) true) as [lo|] eqn:Elo; [|contradiction]. cbn [is_ok bind] in *.
  destruct (ifilt Op 2 Z0 L (rev_filt L G0A) (rev_filt L G0B) false) as [z2|]; [|contradiction]. cbn [is_ok bind] in *.
  destruct Alh as (L1 & L2 & L3 & L4 & L5). destruct Az as (Z1 & Z2 & Z3 & Z4 & Z5).
  replace (same_shape lo z2) with true by (unfold same_shape; lia). cbn [bind].
  set (lo' := force Op (t_add Op lo z2)).
  assert (Hsame: same_on lo lo').
  { unfold same_on, lo'. cbn [force t_add tN tC tH tW]. repeat apply conj; try lia.
    intros n c i j Hc Hi Hj. rewrite force_eq. cbn [t_add tf]. rewrite Z5 by lia. ring. }
  (* rows: same highpass branch, lowpass branches agree on the extent *)
  assert (Hhi: tH hi = 2 * tH lh /\ tW hi = tW lh /\ tN hi = tN lh /\ tC hi = tC lh).
  { unfold radd_res in Ehi.
    pose proof (ifilt_ref_col Op Rth hh L G1A G1B true HL HLe ltac:(lia) ltac:(lia) ltac:(lia) ltac:(lia)) as A.
    destruct (ifilt Op 2 hh L _ _ true) as [ya|]; [|contradiction]. cbn [bind is_ok] in *. destruct A as (A1 & A2 & A3 & A4 & _).
    destruct (ifilt Op 2 hl L _ _ false) as [yb|]; [|discriminate]. cbn [bind] in Ehi. destruct (same_shape ya yb); [|discriminate].
    inversion Ehi. cbn [force t_add tN tC tH tW]. lia. }
  destruct Hhi as (I1 & I2 & I3 & I4).
  pose proof (ifilt_row_ext lo lo' L G0A G0B false HL HLe ltac:(lia) ltac:(lia) ltac:(lia) ltac:(lia) Hsame) as Hrow.
  pose proof (ifilt_ref_row Op Rth hi L G1A G1B true HL HLe ltac:(lia) ltac:(lia) ltac:(lia) ltac:(lia)) as Hhr.
  unfold radd_res.
  destruct (ifilt Op 3 hi L (rev_filt L G1A) (rev_filt L G1B) true) as [yh|]; [|contradiction]. cbn [is_ok bind] in *. destruct Hhr as (H1 & H2 & H3 & H4 & _).
  destruct (ifilt Op 3 lo L (rev_filt L G0A) (rev_filt L G0B) false) as [ya|]; [|contradiction]. cbn [is_ok bind] in *.
  destruct (ifilt Op 3 lo' L (rev_filt L G0A) (rev_filt L G0B) false) as [yb|]; [|contradiction]. cbn [is_ok bind] in *.
  destruct Hrow as ((T1 & T2 & T3 & T4 & T5) & U1 & U2 & U3 & U4).
  replace (same_shape yh ya) with true by (unfold same_shape; lia). replace (same_shape yh yb) with true by (unfold same_shape; lia). cbn [is_ok].
  unfold same_on. cbn [force t_add tN tC tH tW]. repeat apply conj; try lia.
  intros n c i j Hc Hi Hj. rewrite !force_eq. cbn [t_add tf]. rewrite T5 by lia. reflexivity.
Qed.

(* highpass level absent = twelve planes of zeros (of half the lowpass size) *)
Lemma ifilt_row_zero (Z0:ten) L HA HB (hp:bool) : 2 <= L -> L mod 2 = 0 -> 2 <= tW Z0 -> tW Z0 mod 2 = 0 -> 1 <= tH Z0 -> 0 < tC Z0 ->
  (forall n c i j, 0 <= c < tC Z0 -> 0 <= i < tH Z0 -> 0 <= j < tW Z0 -> tf Z0 n c i j = r0 Op) ->
  is_ok (ifilt Op 3 Z0 L (rev_filt L HA) (rev_filt L HB) hp) (fun y =>
    tW y = 2 * tW Z0 /\ tH y = tH Z0 /\ tN y = tN Z0 /\ tC y = tC Z0 /\
    forall n c i j, 0 <= c < tC Z0 -> 0 <= i < tH Z0 -> 0 <= j < 2 * tW Z0 -> tf y n c i j = r0 Op).
Proof.
  intros HL HLe HH H2 HW HC Hz.
  pose proof (ifilt_ref_row Op Rth Z0 L HA HB hp HL HLe HH H2 HW HC) as Ha.
  destruct (ifilt Op 3 Z0 L _ _ hp) as [y|]; [|contradiction]. cbn [is_ok] in *. destruct Ha as (A1 & A2 & A3 & A4 & A5).
  repeat apply conj; try lia. intros n c i j Hc Hi Hj. rewrite A5 by lia.
  rewrite (ref_colifilt_ext Op L (tW Z0) HA HB _ (fun _ => r0 Op)) by (try lia; intros k Hk; apply Hz; lia).
  apply ref_colifilt_zero. reflexivity.
Qed.

Theorem inv_j2plus_none_highs (l:ten) (zp:ten) L (G0A G0B G1A G1B:Z->R) :
  2 <= L -> L mod 2 = 0 -> 2 <= tH l -> tH l mod 2 = 0 -> 2 <= tW l -> tW l mod 2 = 0 -> 0 < tC l ->
  tN zp = tN l -> tC zp = tC l -> 2 * tH zp = tH l -> 2 * tW zp = tW l -> (forall n c i j, tf zp n c i j = r0 Op) ->
  is_ok (inv_j2plus Op s (Some l) nil L (rev_filt L G0B) (rev_filt L G0A) L (rev_filt L G1B) (rev_filt L G1A)) (fun y0 =>
  is_ok (inv_j2plus Op s (Some l) [zp;zp;zp;zp;zp;zp;zp;zp;zp;zp;zp;zp] L (rev_filt L G0B) (rev_filt L G0A) L (rev_filt L G1B) (rev_filt L G1A)) (fun y1 =>
    same_on y0 y1)).
Proof.
  intros HL HLe HH HHe HW HWe HC P1 P2 P3 P4 Hz.
  unfold inv_j2plus, orientations_to_highs, pl.
  change (Z.to_nat (2*0+0)) with 0%nat. change (Z.to_nat (2*0+1)) with 1%nat. change (Z.to_nat (2*1+0)) with 2%nat. change (Z.to_nat (2*1+1)) with 3%nat.
  change (Z.to_nat (2*2+0)) with 4%nat. change (Z.to_nat (2*2+1)) with 5%nat. change (Z.to_nat (2*3+0)) with 6%nat. change (Z.to_nat (2*3+1)) with 7%nat.
  change (Z.to_nat (2*4+0)) with 8%nat. change (Z.to_nat (2*4+1)) with 9%nat. change (Z.to_nat (2*5+0)) with 10%nat. change (Z.to_nat (2*5+1)) with 11%nat.
  cbn [nth].
  set (zq := c2q Op s zp zp zp zp).
  assert (Hzq: tN zq = tN l /\ tC zq = tC l /\ tH zq = tH l /\ tW zq = tW l /\ forall n c i j, tf zq n c i j = r0 Op).
  { unfold zq, c2q. cbn [force tN tC tH tW t_add t_sub t_neg]. repeat apply conj; try lia.
    intros n c i j. rewrite force_eq. cbn [tf t_add t_sub t_neg]. rewrite !Hz.
    destruct (i mod 2 =? 0); destruct (j mod 2 =? 0); ring. }
  destruct Hzq as (Q1 & Q2 & Q3 & Q4 & Q5).
  (* without planes *)
  pose proof (ifilt_ref_col Op Rth l L G0A G0B false HL HLe HH HHe ltac:(lia) HC) as Ha.
  destruct (ifilt Op 2 l L (rev_filt L G0A) (rev_filt L G0B) false) as [a|] eqn:Ea; [|contradiction]. cbn [is_ok bind] in *.
  destruct Ha as (A1 & A2 & A3 & A4 & A5).
  pose proof (ifilt_ref_row Op Rth a L G0A G0B false HL HLe ltac:(lia) ltac:(lia) ltac:(lia) ltac:(lia)) as Hra.
  destruct (ifilt Op 3 a L (rev_filt L G0A) (rev_filt L G0B) false) as [ya|] eqn:Eya; [|contradiction]. cbn [is_ok bind] in *.
  destruct Hra as (Y1 & Y2 & Y3 & Y4 & _).
  (* with zero planes: the highpass branch is zero *)
  pose proof (ifilt_col_zero zq L G1A G1B true HL HLe ltac:(lia) ltac:(lia) ltac:(lia) ltac:(lia) Q5) as Z1.
  pose proof (ifilt_col_zero zq L G0A G0B false HL HLe ltac:(lia) ltac:(lia) ltac:(lia) ltac:(lia) Q5) as Z2.
  unfold radd_res at 1 2.
  destruct (ifilt Op 2 zq L (rev_filt L G1A) (rev_filt L G1B) true) as [z1|]; [|contradiction].
  destruct (ifilt Op 2 zq L (rev_filt L G0A) (rev_filt L G0B) false) as [z2|]; [|contradiction]. cbn [is_ok bind] in *.
  destruct Z1 as (U1 & U2 & U3 & U4 & U5). destruct Z2 as (V1 & V2 & V3 & V4 & V5).
  replace (same_shape z1 z2) with true by (unfold same_shape; lia). cbn [bind].
  replace (same_shape z1 a) with true by (unfold same_shape; lia). cbn [bind].
  set (hi := force Op (t_add Op z1 z2)). set (lo := force Op (t_add Op z1 a)).
  assert (Hlo: same_on a lo).
  { unfold same_on, lo. cbn [force t_add tN tC tH tW]. repeat apply conj; try lia.
    intros n c i j Hc Hi Hj. rewrite force_eq. cbn [t_add tf]. rewrite U5 by lia. ring. }
  assert (Hhi: tN hi = tN l /\ tC hi = tC l /\ tH hi = 2 * tH l /\ tW hi = tW l /\
               forall n c i j, 0 <= c < tC hi -> 0 <= i < tH hi -> 0 <= j < tW hi -> tf hi n c i j = r0 Op).
  { unfold hi. cbn [force t_add tN tC tH tW]. repeat apply conj; try lia.
    intros n c i j Hc Hi Hj. rewrite force_eq. cbn [t_add tf]. rewrite U5, V5 by lia. ring. }
  destruct Hhi as (I1 & I2 & I3 & I4 & I5).
  pose proof (ifilt_row_zero hi L G1A G1B true HL HLe ltac:(lia) ltac:(lia) ltac:(lia) ltac:(lia) I5) as Zh.
  pose proof (ifilt_row_ext a lo L G0A G0B false HL HLe ltac:(lia) ltac:(lia) ltac:(lia) ltac:(lia) Hlo) as Hrow.
  rewrite Eya in Hrow. cbn [is_ok] in Hrow.
  unfold radd_res.
  destruct (ifilt Op 3 hi L (rev_filt L G1A) (rev_filt L G1B) true) as [yh|]; [|contradiction]. cbn [is_ok bind] in *.
  destruct (ifilt Op 3 lo L (rev_filt L G0A) (rev_filt L G0B) false) as [yb|]; [|contradiction]. cbn [is_ok bind] in *.
  destruct Zh as (W1 & W2 & W3 & W4 & W5). destruct Hrow as ((T1 & T2 & T3 & T4 & T5) & X1 & X2 & X3 & X4).
  replace (same_shape yh yb) with true by (unfold same_shape; lia). cbn [is_ok].
  unfold same_on. cbn [force t_add tN tC tH tW]. repeat apply conj; try lia.
  intros n c i j Hc Hi Hj. rewrite force_eq. cbn [t_add tf]. rewrite W5 by lia. rewrite T5 by lia. ring.
Qed.
End S.
