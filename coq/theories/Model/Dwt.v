(* Op-for-op transcription of pytorch_wavelets/dwt/lowlevel.py (roll, mypad, afb1d, afb1d_atrous, sfb1d,
   AFB1D/AFB2D/SFB1D/SFB2D forward and backward, afb2d/sfb2d, afb2d_atrous) and of the level loops in
   dwt/transform1d.py, dwt/transform2d.py.  3-D tensors (N,C,L) are 4-D tensors with H = 1; the 5-D
   tensors (N,C,3,H,W) / (N,C,4,H,W) are kept as (N,3C,H,W) / (N,4C,H,W) (same memory order).
   Filters are the *registered* buffers (time-reversed for analysis, as prep_filt_afb1d leaves them). *)
From PW Require Import Base.Ops Base.Sum Base.Sig Base.Tensor.

Definition M_ZERO := 0. Definition M_SYMM := 1. Definition M_PER := 2. Definition M_CONST := 3.
Definition M_REFLECT := 4. Definition M_REPL := 5. Definition M_PERIODIC := 6.

(* pywt.dwt_coeff_len(N, L, mode) (environment, tied by correspondence B) *)
Definition dwt_coeff_len (N L mode:Z) : Z := if mode =? M_PER then (N+1)/2 else (N + L - 1)/2.

Section Dwt.
Context {R:Type} (Op:Ops R).
Notation ten := (@ten R).
Infix "+r" := (radd Op) (at level 50, left associativity).
Infix "*r" := (rmul Op) (at level 40, left associativity).

Definition same_shape (a b:ten) : bool :=
  (tN a =? tN b) && (tC a =? tC b) && (tH a =? tH b) && (tW a =? tW b).

(* roll(x, n, dim)  (make_even = False): torch.cat((x[-n:], x[:-n]), dim) after n<0 -> len+n *)
Definition roll (x:ten) (n d:Z) : ten :=
  let len := dlen d x in
  let n := if n <? 0 then len + n else n in
  t_cat d (t_slice d (pyclip len (-n)) len 1 x) (t_slice d 0 (pyclip len (-n)) 1 x).

(* mypad restricted to padding along one dim (the only way the library calls it) *)
Definition mypad (d before after mode:Z) (x:ten) : res ten :=
  let l := dlen d x in
  let len := l + before + after in
  if mode =? M_SYMM then Ok (t_gather d len (fun q => reflect_model l (q - before)) x)
  else if mode =? M_PERIODIC then Ok (t_gather d len (fun q => wrap_idx l (q - before)) x)
  else if mode =? M_REFLECT then
    if (before <? l) && (after <? l) then Ok (t_gather d len (fun q => refl_idx l (q - before)) x) else Err E_PADSIZE
  else if mode =? M_REPL then Ok (t_gather d len (fun q => Z.max 0 (Z.min (l-1) (q - before))) x)
  else if (mode =? M_ZERO) || (mode =? M_CONST) then
    Ok (if d =? 2 then t_zpad Op 0 0 before after x else t_zpad Op before after 0 0 x)
  else Err E_VALUE.

(* x[..:la] = x[..:la] + x[b0:b0+la] along d (right-hand side evaluated first) *)
Definition fold_add (d la b0:Z) (x:ten) : res ten :=
  let len := dlen d x in
  let n1 := pyclip len la in
  let n2 := pyclip len (b0+la) - pyclip len b0 in
  if n1 =? n2 then
    Ok (if d =? 2 then mkT (tN x) (tC x) (tH x) (tW x) (fun n c i j => if i <? n1 then tf x n c i j +r tf x n c (b0+i) j else tf x n c i j)
        else mkT (tN x) (tC x) (tH x) (tW x) (fun n c i j => if j <? n1 then tf x n c i j +r tf x n c i (b0+j) else tf x n c i j))
  else Err E_SHAPE.

Definition strides (d:Z) : Z*Z := if d =? 2 then (2,1) else (1,2).
Definition along (d v:Z) : Z*Z := if d =? 2 then (v,0) else (0,v).

(* h = torch.cat([h0, h1] * C, dim=0) *)
Definition w_afb (d C L:Z) (h0 h1:Z->R) : @wten R :=
  w_line d (2*C) L (fun oc a => if oc mod 2 =? 0 then h0 a else h1 a).

Definition afb1d (x:ten) (L:Z) (h0 h1:Z->R) (mode d:Z) : res ten :=
  let C := tC x in
  let N := dlen d x in
  let L2 := L / 2 in
  let w := w_afb d C L h0 h1 in
  let '(sh, sw) := strides d in
  if mode =? M_PER then
    let odd := N mod 2 =? 1 in
    let x1 := if odd then t_cat d x (t_slice d (pyclip N (-1)) N 1 x) else x in
    let N1 := if odd then N + 1 else N in
    let x2 := force Op (roll x1 (-L2) d) in
    let '(ph, pw) := along d (L-1) in
    do lohi <- conv2d_r Op x2 w sh sw ph pw 1 1;
    let lohi := force Op lohi in
    let N2 := N1 / 2 in
    do y <- fold_add d L2 N2 lohi;
    Ok (force Op (t_slice d 0 (pyclip (dlen d y) N2) 1 y))
  else
    let outsize := dwt_coeff_len N L mode in
    let p := 2 * (outsize - 1) - N + L in
    if mode =? M_ZERO then
      let x1 := if p mod 2 =? 1 then (if d =? 2 then t_zpad Op 0 0 0 1 x else t_zpad Op 0 1 0 0 x) else x in
      let x1 := force Op x1 in
      let '(ph, pw) := along d (p/2) in
      do y <- conv2d_r Op x1 w sh sw ph pw 1 1; Ok (force Op y)
    else if (mode =? M_SYMM) || (mode =? M_REFLECT) || (mode =? M_PERIODIC) then
      do x1 <- mypad d (p/2) ((p+1)/2) mode x;
      let x1 := force Op x1 in
      do y <- conv2d_r Op x1 w sh sw 0 0 1 1; Ok (force Op y)
    else Err E_VALUE.

Definition afb1d_atrous (x:ten) (L:Z) (h0 h1:Z->R) (mode d dil:Z) : res ten :=
  let C := tC x in
  let w := w_afb d C L h0 h1 in
  let L2 := (L * dil) / 2 in
  do x1 <- mypad d (L2 - dil) L2 mode x;
  let x1 := force Op x1 in
  let '(dh, dw) := if d =? 2 then (dil,1) else (1,dil) in
  do y <- conv2d_r Op x1 w 1 1 0 0 dh dw; Ok (force Op y).

Definition sfb1d (lo hi:ten) (L:Z) (g0 g1:Z->R) (mode d:Z) : res ten :=
  let C := tC lo in
  let N := 2 * dlen d lo in
  let w0 := w_line d C L (fun _ a => g0 a) in
  let w1 := w_line d C L (fun _ a => g1 a) in
  let '(sh, sw) := strides d in
  if negb (same_shape lo hi) then Err E_SHAPE else
  if mode =? M_PER then
    do ya <- convT2d_r Op lo w0 sh sw 0 0;
    do yb <- convT2d_r Op hi w1 sh sw 0 0;
    let y := force Op (t_add Op ya yb) in
    do y1 <- fold_add d (L-2) N y;
    let y2 := force Op (t_slice d 0 (pyclip (dlen d y1) N) 1 y1) in
    Ok (force Op (roll y2 (1 - L/2) d))
  else if (mode =? M_ZERO) || (mode =? M_SYMM) || (mode =? M_REFLECT) || (mode =? M_PERIODIC) then
    let '(ph, pw) := along d (L-2) in
    do ya <- convT2d_r Op lo w0 sh sw ph pw;
    do yb <- convT2d_r Op hi w1 sh sw ph pw;
    Ok (force Op (t_add Op ya yb))
  else Err E_VALUE.

(* ---- autograd Functions ---- *)
(* band b of y.reshape(N,-1,4,H,W): channel 4c+b *)
Definition band4 (b:Z) (y:ten) : ten := t_chmap (tC y / 4) (fun c => 4*c + b) y.
(* y[:,:,1:] of the same reshape, kept as (N,3C,H,W) *)
Definition highs4 (y:ten) : ten := t_chmap (3 * (tC y / 4)) (fun c => 4*(c/3) + c mod 3 + 1) y.
(* torch.unbind(highs, dim=2)[b] for highs (N,C,3,H,W) kept as (N,3C,H,W) *)
Definition unbind3 (b:Z) (hs:ten) : ten := t_chmap (tC hs / 3) (fun c => 3*c + b) hs.

Definition AFB2D_fwd (x:ten) (Lr:Z) (h0r h1r:Z->R) (Lc:Z) (h0c h1c:Z->R) (mode:Z) : res (ten*ten) :=
  do lohi <- afb1d x Lr h0r h1r mode 3;
  do y <- afb1d lohi Lc h0c h1c mode 2;
  Ok (force Op (band4 0 y), force Op (highs4 y)).

(* crop of the backward to ctx.shape = (H0,W0) *)
Definition crop_to (H0 W0:Z) (dx:ten) : ten :=
  if (H0 <? tH dx) && (W0 <? tW dx) then t_pyslice 3 0 W0 (t_pyslice 2 0 H0 dx)
  else if H0 <? tH dx then t_pyslice 2 0 H0 dx
  else if W0 <? tW dx then t_pyslice 3 0 W0 dx
  else dx.
Definition AFB2D_bwd (H0 W0:Z) (low highs:ten) (Lr:Z) (h0r h1r:Z->R) (Lc:Z) (h0c h1c:Z->R) (mode:Z) : res ten :=
  let lh := unbind3 0 highs in let hl := unbind3 1 highs in let hh := unbind3 2 highs in
  do lo <- sfb1d low lh Lc h0c h1c mode 2;
  do hi <- sfb1d hl hh Lc h0c h1c mode 2;
  do dx <- sfb1d lo hi Lr h0r h1r mode 3;
  Ok (force Op (crop_to H0 W0 dx)).

Definition AFB1D_fwd (x:ten) (L:Z) (h0 h1:Z->R) (mode:Z) : res (ten*ten) :=
  do lohi <- afb1d x L h0 h1 mode 3;
  Ok (force Op (t_chmap (range_len 0 (tC lohi) 2) (fun c => 2*c) lohi),
      force Op (t_chmap (range_len (Z.min 1 (tC lohi)) (tC lohi) 2) (fun c => 2*c+1) lohi)).
Definition AFB1D_bwd (W0:Z) (dx0 dx1:ten) (L:Z) (h0 h1:Z->R) (mode:Z) : res ten :=
  do dx <- sfb1d dx0 dx1 L h0 h1 mode 3;
  Ok (force Op (if W0 <? tW dx then t_pyslice 3 0 W0 dx else dx)).

Definition SFB2D_fwd (low highs:ten) (Lr:Z) (g0r g1r:Z->R) (Lc:Z) (g0c g1c:Z->R) (mode:Z) : res ten :=
  let lh := unbind3 0 highs in let hl := unbind3 1 highs in let hh := unbind3 2 highs in
  do lo <- sfb1d low lh Lc g0c g1c mode 2;
  do hi <- sfb1d hl hh Lc g0c g1c mode 2;
  sfb1d lo hi Lr g0r g1r mode 3.
(* backward: (dlow, dhigh); the needs_input_grad guard is modelled in the module-level functions *)
Definition SFB2D_bwd (dy:ten) (Lr:Z) (g0r g1r:Z->R) (Lc:Z) (g0c g1c:Z->R) (mode:Z) : res (ten*ten) :=
  do dx <- afb1d dy Lr g0r g1r mode 3;
  do dx2 <- afb1d dx Lc g0c g1c mode 2;
  Ok (force Op (band4 0 dx2), force Op (highs4 dx2)).
Definition SFB1D_fwd (low high:ten) (L:Z) (g0 g1:Z->R) (mode:Z) : res ten := sfb1d low high L g0 g1 mode 3.
Definition SFB1D_bwd (dy:ten) (L:Z) (g0 g1:Z->R) (mode:Z) : res (ten*ten) :=
  do dx <- afb1d dy L g0 g1 mode 3;
  Ok (force Op (t_chmap (range_len 0 (tC dx) 2) (fun c => 2*c) dx),
      force Op (t_chmap (range_len (Z.min 1 (tC dx)) (tC dx) 2) (fun c => 2*c+1) dx)).
(* which gradients SFB*.backward returns: guard `needs[0] or needs[1]` (after the fix) *)
Definition SFB_bwd_returns (need_low need_high:bool) : bool*bool :=
  if need_low || need_high then (true, true) else (false, false).

(* ---- functional API ---- *)
Definition afb2d (x:ten) (Lr:Z) (h0r h1r:Z->R) (Lc:Z) (h0c h1c:Z->R) (mode:Z) : res ten :=
  do lohi <- afb1d x Lr h0r h1r mode 3; afb1d lohi Lc h0c h1c mode 2.
Definition sfb2d (ll lh hl hh:ten) (Lr:Z) (g0r g1r:Z->R) (Lc:Z) (g0c g1c:Z->R) (mode:Z) : res ten :=
  do lo <- sfb1d ll lh Lc g0c g1c mode 2;
  do hi <- sfb1d hl hh Lc g0c g1c mode 2;
  sfb1d lo hi Lr g0r g1r mode 3.
Definition afb2d_atrous (x:ten) (Lr:Z) (h0r h1r:Z->R) (Lc:Z) (h0c h1c:Z->R) (mode dil:Z) : res ten :=
  do lohi <- afb1d_atrous x Lr h0r h1r mode 3 dil; afb1d_atrous lohi Lc h0c h1c mode 2 dil.

(* ---- non-separable one-level banks (afb2d_nonsep / sfb2d_nonsep), filters given as passed by the caller ---- *)
(* prep_filt_afb2d_nonsep: outer products, both axes flipped; band b = 2*(row band) ... order (ll, lh, hl, hh) with
   ll = outer(h0_col,h0_row), lh = outer(h1_col,h0_row), hl = outer(h0_col,h1_row), hh = outer(h1_col,h1_row) *)
Definition csel (h0 h1:Z->R) (b:Z) : Z->R := if (b =? 1) || (b =? 3) then h1 else h0.   (* column filter of band b *)
Definition rsel (h0 h1:Z->R) (b:Z) : Z->R := if (b =? 2) || (b =? 3) then h1 else h0.   (* row filter of band b *)
Definition w_afb_nonsep (C Ly Lx:Z) (h0c h1c h0r h1r:Z->R) : @wten R :=
  mkW (4*C) Ly Lx (fun oc a b => csel h0c h1c (oc mod 4) (Ly-1-a) *r rsel h0r h1r (oc mod 4) (Lx-1-b)).
Definition w_sfb_nonsep_band (bnd C Ly Lx:Z) (g0c g1c g0r g1r:Z->R) : @wten R :=
  mkW C Ly Lx (fun _ a b => csel g0c g1c bnd a *r rsel g0r g1r bnd b).

Definition afb2d_nonsep (x:ten) (Ly:Z) (h0c h1c:Z->R) (Lx:Z) (h0r h1r:Z->R) (mode:Z) : res ten :=
  let C := tC x in
  let w := w_afb_nonsep C Ly Lx h0c h1c h0r h1r in
  if mode =? M_PER then
    let x1 := if tH x mod 2 =? 1 then t_cat 2 x (t_slice 2 (pyclip (tH x) (-1)) (tH x) 1 x) else x in
    let x2 := if tW x1 mod 2 =? 1 then t_cat 3 x1 (t_slice 3 (pyclip (tW x1) (-1)) (tW x1) 1 x1) else x1 in
    let Ny := tH x2 in let Nx := tW x2 in
    let x3 := force Op (roll (force Op (roll x2 ((- Ly)/2) 2)) ((- Lx)/2) 3) in
    do y <- conv2d_r Op x3 w 2 2 (Ly-1) (Lx-1) 1 1;
    let y := force Op y in
    do y1 <- fold_add 2 (Ly/2) (Ny/2) y;
    let y1 := force Op y1 in
    do y2 <- fold_add 3 (Lx/2) (Nx/2) y1;
    Ok (force Op (t_pyslice 3 0 (Nx/2) (t_pyslice 2 0 (Ny/2) y2)))
  else if (mode =? M_ZERO) || (mode =? M_SYMM) || (mode =? M_REFLECT) then
    let out1 := dwt_coeff_len (tH x) Ly mode in
    let out2 := dwt_coeff_len (tW x) Lx mode in
    let p1 := 2 * (out1 - 1) - tH x + Ly in
    let p2 := 2 * (out2 - 1) - tW x + Lx in
    if mode =? M_ZERO then
      let x1 := t_zpad Op 0 (if p2 mod 2 =? 1 then 1 else 0) 0 (if p1 mod 2 =? 1 then 1 else 0) x in
      do y <- conv2d_r Op (force Op x1) w 2 2 (p1/2) (p2/2) 1 1; Ok (force Op y)
    else
      do xa <- mypad 3 (p2/2) ((p2+1)/2) mode x;
      do xb <- mypad 2 (p1/2) ((p1+1)/2) mode xa;
      do y <- conv2d_r Op (force Op xb) w 2 2 0 0 1 1; Ok (force Op y)
  else Err E_VALUE.

Definition sfb2d_nonsep (x:ten) (Ly:Z) (g0c g1c:Z->R) (Lx:Z) (g0r g1r:Z->R) (mode:Z) : res ten :=
  let C := tC x / 4 in
  let Ny := tH x in let Nx := tW x in
  let term (b:Z) (ph pw:Z) := convT2d_r Op (band4 b x) (w_sfb_nonsep_band b C Ly Lx g0c g1c g0r g1r) 2 2 ph pw in
  let total (ph pw:Z) :=
    do t0 <- term 0 ph pw; do t1 <- term 1 ph pw; do t2 <- term 2 ph pw; do t3 <- term 3 ph pw;
    Ok (force Op (t_add Op (t_add Op t0 t1) (t_add Op t2 t3))) in
  if mode =? M_PER then
    do ll <- total 0 0;
    do l1 <- fold_add 2 (Ly-2) (2*Ny) ll;
    let l1 := force Op l1 in
    do l2 <- fold_add 3 (Lx-2) (2*Nx) l1;
    let l3 := force Op (t_pyslice 3 0 (2*Nx) (t_pyslice 2 0 (2*Ny) l2)) in
    Ok (force Op (roll (force Op (roll l3 (1 - Ly/2) 2)) (1 - Lx/2) 3))
  else if (mode =? M_SYMM) || (mode =? M_ZERO) || (mode =? M_REFLECT) || (mode =? M_PERIODIC) then
    total (Ly-2) (Lx-2)
  else Err E_VALUE.

(* ---- modules: level loops ---- *)
Fixpoint DWT1DForward (J:nat) (x:ten) (L:Z) (h0 h1:Z->R) (mode:Z) : res (ten * list ten) :=
  match J with
  | O => Ok (x, nil)
  | S J' => do r <- AFB1D_fwd x L h0 h1 mode;
            let '(x0, x1) := r in
            do rest <- DWT1DForward J' x0 L h0 h1 mode;
            let '(yl, yh) := rest in Ok (yl, x1 :: yh)
  end.
(* highs given finest first; processed from the coarsest; None -> zeros_like(x0) *)
Fixpoint DWT1DInverse_rev (x0:ten) (highs_rev:list (option ten)) (L:Z) (g0 g1:Z->R) (mode:Z) : res ten :=
  match highs_rev with
  | nil => Ok x0
  | h :: rest =>
      let x1 := match h with Some t => t | None => t_zeros Op (tN x0) (tC x0) (tH x0) (tW x0) end in
      let x0' := if tW x1 <? tW x0 then t_pyslice 3 0 (-1) x0 else x0 in
      do y <- SFB1D_fwd x0' x1 L g0 g1 mode;
      DWT1DInverse_rev y rest L g0 g1 mode
  end.
Definition DWT1DInverse (x0:ten) (highs:list (option ten)) L g0 g1 mode := DWT1DInverse_rev x0 (rev highs) L g0 g1 mode.

Fixpoint DWTForward (J:nat) (x:ten) (Lr:Z) (h0r h1r:Z->R) (Lc:Z) (h0c h1c:Z->R) (mode:Z) : res (ten * list ten) :=
  match J with
  | O => Ok (x, nil)
  | S J' => do r <- AFB2D_fwd x Lr h0r h1r Lc h0c h1c mode;
            let '(ll, high) := r in
            do rest <- DWTForward J' ll Lr h0r h1r Lc h0c h1c mode;
            let '(yl, yh) := rest in Ok (yl, high :: yh)
  end.
Fixpoint DWTInverse_rev (ll:ten) (highs_rev:list (option ten)) (Lr:Z) (g0r g1r:Z->R) (Lc:Z) (g0c g1c:Z->R) (mode:Z) : res ten :=
  match highs_rev with
  | nil => Ok ll
  | h :: rest =>
      let h1 := match h with Some t => t | None => t_zeros Op (tN ll) (3 * tC ll) (tH ll) (tW ll) end in
      let ll1 := if tH h1 <? tH ll then t_pyslice 2 0 (-1) ll else ll in
      let ll2 := if tW h1 <? tW ll1 then t_pyslice 3 0 (-1) ll1 else ll1 in
      do y <- SFB2D_fwd ll2 h1 Lr g0r g1r Lc g0c g1c mode;
      DWTInverse_rev y rest Lr g0r g1r Lc g0c g1c mode
  end.
Definition DWTInverse ll highs Lr g0r g1r Lc g0c g1c mode := DWTInverse_rev ll (rev highs) Lr g0r g1r Lc g0c g1c mode.

(* SWTForward: mode 'per'/'periodization' mapped to 'periodic'; level j uses dilation 2^j; result (N,4C,H,W) per level *)
Fixpoint SWTForward_from (J:nat) (dil:Z) (ll:ten) (Lr:Z) (h0r h1r:Z->R) (Lc:Z) (h0c h1c:Z->R) (mode:Z) : res (list ten) :=
  match J with
  | O => Ok nil
  | S J' => do y <- afb2d_atrous ll Lr h0r h1r Lc h0c h1c mode dil;
            do rest <- SWTForward_from J' (2*dil) (force Op (band4 0 y)) Lr h0r h1r Lc h0c h1c mode;
            Ok (y :: rest)
  end.
Definition SWTForward (J:nat) (x:ten) Lr h0r h1r Lc h0c h1c (mode:Z) :=
  SWTForward_from J 1 x Lr h0r h1r Lc h0c h1c (if mode =? M_PER then M_PERIODIC else mode).
End Dwt.
