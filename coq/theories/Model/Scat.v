(* Model of pytorch_wavelets/scatternet: ScatLayer / ScatLayerj2 (size extension, dispatch, output channel layout),
   the four Functions' forward and backward passes, SmoothMagFn.
   Stage-level transcription: the views / cats / slices of the Python code are folded into channel index arithmetic
   (channel = band * C + c); the exact correspondence (with torch.sqrt replaced by the identity, integer data) pins it.
   Extra operations beyond the ring: sq (square root), dv (division), the constants s = 1/sqrt 2, quarter = 1/4, bias. *)
From PW Require Import Base.Ops Base.Sum Base.Sig Base.Tensor Model.Dwt Model.Dtcwt.

Record XOps (R:Type) := mkX { xs_ : R; xquarter : R; xsq : R -> R; xdv : R -> R -> R }.
Arguments xs_ {R}. Arguments xquarter {R}. Arguments xsq {R}. Arguments xdv {R}.

Section Scat.
Context {R:Type} (Op:Ops R) (X:XOps R).
Notation ten := (@ten R).
Infix "+r" := (radd Op) (at level 50, left associativity).
Infix "-r" := (rsub Op) (at level 50, left associativity).
Infix "*r" := (rmul Op) (at level 40, left associativity).
Variable b : R.     (* magnitude bias *)

Definition smag (x y:R) : R := xsq X (x *r x +r y *r y +r b *r b) -r b.
Definition rad3 (p:list ten) (o:Z) n i j : R :=   (* sqrt(sum over the 3 colour channels of re^2+im^2, + b^2) *)
  let re := pl Op p o 0 in let im := pl Op p o 1 in
  xsq X (tf re n 0 i j *r tf re n 0 i j +r tf im n 0 i j *r tf im n 0 i j +r
         tf re n 1 i j *r tf re n 1 i j +r tf im n 1 i j *r tf im n 1 i j +r
         tf re n 2 i j *r tf re n 2 i j +r tf im n 2 i j *r tf im n 2 i j +r b *r b).
Definition avgpool2 (x:ten) : ten :=
  mkT (tN x) (tC x) (tH x / 2) (tW x / 2)
    (fun n c i j => xquarter X *r (tf x n c (2*i) (2*j) +r tf x n c (2*i) (2*j+1) +r tf x n c (2*i+1) (2*j) +r tf x n c (2*i+1) (2*j+1))).
(* 1/4 * F.interpolate(x, scale_factor=2, mode="nearest") *)
Definition up2q (x:ten) : ten := mkT (tN x) (tC x) (2 * tH x) (2 * tW x) (fun n c i j => xquarter X *r tf x n c (i/2) (j/2)).

(* magnitudes of the six subbands, channel o*C + c (greyscale) or o (colour) *)
Definition mags (C:Z) (p:list ten) : ten :=
  let p0 := pl Op p 0 0 in
  mkT (tN p0) (6*C) (tH p0) (tW p0) (fun n q i j => smag (tf (pl Op p (q / C) 0) n (q mod C) i j) (tf (pl Op p (q / C) 1) n (q mod C) i j)).
Definition mags3 (p:list ten) : ten :=
  let p0 := pl Op p 0 0 in mkT (tN p0) 6 (tH p0) (tW p0) (fun n o i j => rad3 p o n i j -r b).

(* ---- first-order layer: ScatLayerj1_f / ScatLayerj1_rot_f forward ---- *)
Definition fwd1 (rot:bool) (x:ten) (Lo0:Z) (h0o:Z->R) (Lo1:Z) (h1o:Z->R) (Lo2:Z) (h2o:Z->R) (mode:Z) :=
  if rot then fwd_j1_rot Op (xs_ X) x Lo0 h0o Lo1 h1o Lo2 h2o mode else fwd_j1 Op (xs_ X) x Lo0 h0o Lo1 h1o false mode.
Definition scat_j1 (rot colour:bool) (x:ten) Lo0 h0o Lo1 h1o Lo2 h2o (mode:Z) : res ten :=
  if negb ((tH x mod 2 =? 0) && (tW x mod 2 =? 0)) then Err E_ASSERT else
  do r <- fwd1 rot x Lo0 h0o Lo1 h1o Lo2 h2o mode;
  let '(ll, p) := r in
  let lp := force Op (avgpool2 ll) in
  if colour then
    let m := force Op (mags3 p) in
    Ok (force Op (t_cat 1 lp m))
  else
    let m := force Op (mags (tC x) p) in
    Ok (force Op (t_cat 1 lp m)).     (* channel band*C + c with band 0 = lowpass *)
(* ScatLayer.forward: replicate the last row / column of odd sizes, colour needs 3 channels *)
Definition ScatLayer (rot colour:bool) (x:ten) Lo0 h0o Lo1 h1o Lo2 h2o (mode:Z) : res ten :=
  if colour && negb (tC x =? 3) then Err E_ASSERT else
  scat_j1 rot colour (force Op (ext_even x)) Lo0 h0o Lo1 h1o Lo2 h2o mode.

(* ---- second-order layer ---- *)
Definition fwd2 (rot:bool) (x:ten) (L0:Z) (h0a h0b:Z->R) (L1:Z) (h1a h1b:Z->R) (L2:Z) (h2a h2b:Z->R) :=
  if rot then fwd_j2plus_rot Op (xs_ X) x L0 h0a h0b L1 h1a h1b L2 h2a h2b else fwd_j2plus Op (xs_ X) x L0 h0a h0b L1 h1a h1b false.
Definition scat_j2 (rot colour:bool) (x:ten) Lo0 h0o Lo1 h1o Lo2 h2o L0 h0a h0b L1 h1a h1b L2 h2a h2b (mode:Z) : res ten :=
  if negb ((tH x mod 8 =? 0) && (tW x mod 8 =? 0)) then Err E_ASSERT else
  if negb (mode =? M_SYMM) then Err 7 else      (* coldfilt raises NotImplementedError for any other mode *)
  let C := tC x in
  do r1 <- fwd1 rot x Lo0 h0o Lo1 h1o Lo2 h2o mode;
  let '(s0, p1) := r1 in
  let s1_j1 := force Op (if colour then mags3 p1 else mags C p1) in
  do r2 <- fwd2 rot s0 L0 h0a h0b L1 h1a h1b L2 h2a h2b;
  let '(s0b, p2) := r2 in
  let s1_j2 := force Op (if colour then mags3 p2 else mags C p2) in
  let s0c := force Op (avgpool2 s0b) in
  do r3 <- fwd1 rot s1_j1 Lo0 h0o Lo1 h1o Lo2 h2o mode;
  let '(l3, p3) := r3 in
  let s2_j1 := force Op (mags (tC s1_j1) p3) in      (* channel o2*(6C) + o1*C + c *)
  let s1_j1b := force Op (avgpool2 l3) in
  Ok (force Op (t_cat 1 (t_cat 1 s0c s1_j1b) (t_cat 1 s1_j2 s2_j1))).
(* ScatLayerj2.forward: extend to a multiple of 8 by repeating border rows/columns (Python slicing clips) *)
Definition ext8 (d:Z) (x:ten) : ten :=
  let n := dlen d x in let rem := n mod 8 in
  if rem =? 0 then x else
  let after := (9 - rem) / 2 in let before := (8 - rem) / 2 in
  t_cat d (t_cat d (t_pyslice d 0 before x) x) (t_slice d (pyclip n (- after)) n 1 x).
Definition ScatLayerj2 (rot colour:bool) (x:ten) Lo0 h0o Lo1 h1o Lo2 h2o L0 h0a h0b L1 h1a h1b L2 h2a h2b (mode:Z) : res ten :=
  let x1 := force Op (ext8 3 (ext8 2 x)) in
  if colour && negb (tC x =? 3) then Err E_ASSERT else
  scat_j2 rot colour x1 Lo0 h0o Lo1 h1o Lo2 h2o L0 h0a h0b L1 h1a h1b L2 h2a h2b mode.

(* ---- backward passes ---- *)
(* phase factors saved in the forward: re/r, im/r per orientation, with r the root before subtracting the bias *)
Definition phases (colour:bool) (C:Z) (p:list ten) : list ten :=
  flat_map (fun o =>
    let re := pl Op p o 0 in let im := pl Op p o 1 in
    let rr n c i j := if colour then rad3 p o n i j
                      else xsq X (tf re n c i j *r tf re n c i j +r tf im n c i j *r tf im n c i j +r b *r b) in
    [force Op (mkT (tN re) (tC re) (tH re) (tW re) (fun n c i j => xdv X (tf re n c i j) (rr n c i j)));
     force Op (mkT (tN re) (tC re) (tH re) (tW re) (fun n c i j => xdv X (tf im n c i j) (rr n c i j)))])
  (zrange 6).
(* cotangent planes: dr[o] * phase ; dr given as a tensor with channel o*C + c (greyscale) or o (colour, broadcast over c) *)
Definition cot_planes (colour:bool) (C:Z) (dr:ten) (ph:list ten) : list ten :=
  flat_map (fun o =>
    let g n c i j := if colour then tf dr n o i j else tf dr n (o*C + c) i j in
    let a := pl Op ph o 0 in let bb := pl Op ph o 1 in
    [force Op (mkT (tN a) (tC a) (tH a) (tW a) (fun n c i j => g n c i j *r tf a n c i j));
     force Op (mkT (tN a) (tC a) (tH a) (tW a) (fun n c i j => g n c i j *r tf bb n c i j))])
  (zrange 6).
Definition inv1 (rot:bool) (l:ten) (hs:list ten) Lo0 h0o Lo1 h1o Lo2 h2o (mode:Z) : res ten :=
  if rot then inv_j1_rot Op (xs_ X) l hs Lo0 h0o Lo1 h1o Lo2 h2o mode else inv_j1 Op (xs_ X) (Some l) hs Lo0 h0o Lo1 h1o mode.
Definition inv2 (rot:bool) (l:ten) (hs:list ten) L0 (h0a h0b:Z->R) L1 (h1a h1b:Z->R) L2 (h2a h2b:Z->R) : res ten :=
  if rot then inv_j2plus_rot Op (xs_ X) l hs L0 h0a h0b L1 h1a h1b L2 h2a h2b else inv_j2plus Op (xs_ X) (Some l) hs L0 h0a h0b L1 h1a h1b.

(* ScatLayerj1(_rot)_f.backward: x the forward input (even sizes), dZ the cotangent of Z *)
Definition scat_j1_bwd (rot colour:bool) (x dZ:ten) Lo0 h0o Lo1 h1o Lo2 h2o (mode:Z) : res ten :=
  let C := tC x in
  do r <- fwd1 rot x Lo0 h0o Lo1 h1o Lo2 h2o mode;
  let '(_, p) := r in
  let ph := phases colour C p in
  let nl := if colour then 3 else C in
  let dYl := force Op (t_chmap nl (fun c => c) dZ) in
  let dr := force Op (t_chmap (tC dZ - nl) (fun c => nl + c) dZ) in
  inv1 rot (force Op (up2q dYl)) (cot_planes colour C dr ph) Lo0 h0o Lo1 h1o Lo2 h2o mode.

(* ScatLayerj2(_rot)_f.backward; analysis filters with a <-> b exchanged for the q-shift stage *)
Definition scat_j2_bwd (rot colour:bool) (x dZ:ten) Lo0 h0o Lo1 h1o Lo2 h2o L0 h0a h0b L1 h1a h1b L2 h2a h2b (mode:Z) : res ten :=
  let C := tC x in
  do r1 <- fwd1 rot x Lo0 h0o Lo1 h1o Lo2 h2o mode;
  let '(s0, p1) := r1 in
  let s1_j1 := force Op (if colour then mags3 p1 else mags C p1) in
  do r2 <- fwd2 rot s0 L0 h0a h0b L1 h1a h1b L2 h2a h2b;
  let '(_, p2) := r2 in
  do r3 <- fwd1 rot s1_j1 Lo0 h0o Lo1 h1o Lo2 h2o mode;
  let '(_, p3) := r3 in
  let C1 := tC s1_j1 in                      (* 6C or 6 *)
  let nl := if colour then 3 else C in
  let ds0 := force Op (t_chmap nl (fun c => c) dZ) in
  let ds1_j1 := force Op (t_chmap C1 (fun c => nl + c) dZ) in
  let ds1_j2 := force Op (t_chmap C1 (fun c => nl + C1 + c) dZ) in
  let ds2_j1 := force Op (t_chmap (6*C1) (fun c => nl + 2*C1 + c) dZ) in
  (* inverse second order *)
  do d1 <- inv1 rot (force Op (up2q ds1_j1)) (cot_planes false C1 ds2_j1 (phases false C1 p3)) Lo0 h0o Lo1 h1o Lo2 h2o mode;
  (* inverse first order, j = 2 *)
  do d0 <- inv2 rot (force Op (up2q ds0)) (cot_planes colour C ds1_j2 (phases colour C p2)) L0 h0b h0a L1 h1b h1a L2 h2b h2a;
  (* inverse first order, j = 1 *)
  inv1 rot d0 (cot_planes colour C d1 (phases colour C p1)) Lo0 h0o Lo1 h1o Lo2 h2o mode.
End Scat.
