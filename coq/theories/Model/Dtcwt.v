(* Op-for-op transcription of pytorch_wavelets/dtcwt/lowlevel.py (colfilter, rowfilter, coldfilt, rowdfilt, colifilt,
   rowifilt, q2c, c2q), dtcwt/transform_funcs.py (fwd_j1, fwd_j2plus, inv_j1, inv_j2plus and the four Functions'
   backward passes) and the level loops of dtcwt/transform2d.py.
   Filters are the registered buffers (prep_filt: column vector, time-reversed).  The factor 1/sqrt 2 of q2c/c2q is the
   ring element [s].  A band-pass level is kept as 12 planes (N,C,h,w): index 2*o + ri, o = 0..5 (15,45,75,105,135,165
   degrees), ri = 0 real / 1 imaginary; the placement of the orientation and real/imag axes is C12's concern. *)
From PW Require Import Base.Ops Base.Sum Base.Sig Base.Tensor Model.Dwt.

Section Dtcwt.
Context {R:Type} (Op:Ops R).
Notation ten := (@ten R).
Infix "+r" := (radd Op) (at level 50, left associativity).
Infix "-r" := (rsub Op) (at level 50, left associativity).
Infix "*r" := (rmul Op) (at level 40, left associativity).
Variable s : R.    (* 1/sqrt 2 *)

(* symm_pad(l, m) = reflect(arange(-m, l+m), -0.5, l-0.5): index array of length l + 2m *)
Definition symm_pad (l m:Z) : Z -> Z := fun q => reflect_model l (q - m).
(* Python slice xe[a:b:st] of an index array of length n: (length, function) *)
Definition idx_slice (n a b st:Z) (xe:Z->Z) : Z * (Z->Z) :=
  let a' := pyclip n a in let b' := pyclip n b in (range_len a' b' st, fun q => xe (a' + st*q)).
Definition NONE := 1000000.     (* "no bound" marker for slices with an open end *)
Definition sl (n:Z) (a b st:Z) (xe:Z->Z) := idx_slice n a (if b =? NONE then n else b) st xe.

Definition t_sub (a b:ten) : ten := mkT (tN a) (tC a) (tH a) (tW a) (fun n c i j => tf a n c i j -r tf b n c i j).
Definition t_scale (k:R) (a:ten) : ten := mkT (tN a) (tC a) (tH a) (tW a) (fun n c i j => k *r tf a n c i j).
Definition t_neg (a:ten) : ten := mkT (tN a) (tC a) (tH a) (tW a) (fun n c i j => ropp Op (tf a n c i j)).

(* colfilter (d = 2) / rowfilter (d = 3): h has L taps; mode symmetric (1) or zero padding otherwise *)
Definition linefilter (d:Z) (x:ten) (L:Z) (h:Z->R) (mode:Z) : res ten :=
  let ch := tC x in
  let m := L / 2 in
  let w := w_line d ch L (fun _ a => h a) in
  if mode =? M_SYMM then
    let l := dlen d x in
    let x1 := force Op (t_gather d (l + 2*m) (symm_pad l m) x) in
    do y <- conv2d_r Op x1 w 1 1 0 0 1 1; Ok (force Op y)
  else
    let '(ph, pw) := along d m in
    do y <- conv2d_r Op x w 1 1 ph pw 1 1; Ok (force Op y).

(* coldfilt (d = 2) / rowdfilt (d = 3) *)
Definition dfilt (d:Z) (x:ten) (L:Z) (ha hb:Z->R) (highpass:bool) : res ten :=
  let ch := tC x in
  let r := dlen d x in
  if negb (r mod 4 =? 0) then Err E_VALUE else
  let n := r + 2 * L in
  let xe := symm_pad r L in
  let '(la, ia) := sl n 2 NONE 2 xe in
  let '(lb, ib) := sl n 3 NONE 2 xe in
  let x1 := force Op (t_cat 1 (t_gather d la ia x) (t_gather d lb ib x)) in
  let w := w_line d (2*ch) L (fun oc a => if oc <? ch then ha a else hb a) in
  let '(sh, sw) := strides d in
  do y <- conv2d_r Op x1 w sh sw 0 0 1 1;
  let y := force Op y in
  (* stack((first, second), dim=-2 / -1).view(...) : position 2i+t <- tensor t position i *)
  let first := if highpass then ch else 0 in
  let second := if highpass then 0 else ch in
  let sel (t:Z) := if t =? 0 then first else second in
  Ok (force Op (if d =? 2
      then mkT (tN y) ch (r / 2) (tW y) (fun n c i j => tf y n (sel (i mod 2) + c) (i / 2) j)
      else mkT (tN y) ch (tH y) (r / 2) (fun n c i j => tf y n (sel (j mod 2) + c) i (j / 2)))).

(* colifilt (d = 2) / rowifilt (d = 3) *)
Definition ifilt (d:Z) (x:ten) (L:Z) (ha hb:Z->R) (highpass:bool) : res ten :=
  let ch := tC x in
  let m2 := L / 2 in
  let hao := fun a => ha (2*a + 1) in let hae := fun a => ha (2*a) in
  let hbo := fun a => hb (2*a + 1) in let hbe := fun a => hb (2*a) in
  let r := dlen d x in
  if negb (r mod 2 =? 0) then Err E_VALUE else
  let n := r + 2 * m2 in
  let xe := symm_pad r m2 in
  let even := m2 mod 2 =? 0 in
  let '(s1, s2, s3, s4) :=
    if even then
      (if highpass then (sl n 1 (-2) 2 xe, sl n 0 (-2) 2 xe, sl n 3 NONE 2 xe, sl n 2 NONE 2 xe)
       else (sl n 0 (-2) 2 xe, sl n 1 (-2) 2 xe, sl n 2 NONE 2 xe, sl n 3 NONE 2 xe))
    else
      (if highpass then (sl n 2 (-1) 2 xe, sl n 1 (-1) 2 xe, sl n 2 (-1) 2 xe, sl n 1 (-1) 2 xe)
       else (sl n 1 (-1) 2 xe, sl n 2 (-1) 2 xe, sl n 1 (-1) 2 xe, sl n 2 (-1) 2 xe)) in
  let '(h1, h2, h3, h4) := if even then (hae, hbe, hao, hbo) else (hao, hbo, hae, hbe) in
  let g (p:Z*(Z->Z)) := t_gather d (fst p) (snd p) x in
  let x1 := force Op (t_cat 1 (t_cat 1 (g s1) (g s2)) (t_cat 1 (g s3) (g s4))) in
  (* number of taps of the polyphase components: ha[1::2], ha[::2] *)
  let Lo := range_len 1 L 2 in let Le := range_len 0 L 2 in
  let w := w_line d (4*ch) m2 (fun oc a => if oc <? ch then h1 a else if oc <? 2*ch then h2 a else if oc <? 3*ch then h3 a else h4 a) in
  if negb ((Lo =? m2) && (Le =? m2)) then Err E_SHAPE else
  do y <- conv2d_r Op x1 w 1 1 0 0 1 1;
  let y := force Op y in
  (* stack([4 tensors], dim=3 / 4).view(batch, ch, 2r, c): position 4i+t <- tensor t position i ; needs 4*len = 2r *)
  if negb (4 * dlen d y =? 2 * r) then Err E_SHAPE else
  Ok (force Op (if d =? 2
      then mkT (tN y) ch (2 * r) (tW y) (fun n c i j => tf y n ((i mod 4) * ch + c) (i / 4) j)
      else mkT (tN y) ch (tH y) (2 * r) (fun n c i j => tf y n ((j mod 4) * ch + c) i (j / 4)))).

(* q2c: ((a-d, b+c), (a+d, b-c)) of y/sqrt2 with a,b,c,d the four polyphase planes *)
Definition poly (pi pj:Z) (y:ten) : ten := mkT (tN y) (tC y) (range_len pi (tH y) 2) (range_len pj (tW y) 2) (fun n c i j => tf y n c (2*i+pi) (2*j+pj)).
Definition q2c (y:ten) : (ten*ten)*(ten*ten) :=
  let y := t_scale s y in
  let a := poly 0 0 y in let b := poly 0 1 y in let c := poly 1 0 y in let d := poly 1 1 y in
  ((force Op (t_sub a d), force Op (t_add Op b c)), (force Op (t_add Op a d), force Op (t_sub b c))).
(* c2q *)
Definition c2q (w1r w1i w2r w2i:ten) : ten :=
  let x1 := t_add Op w1r w2r in let x2 := t_add Op w1i w2i in
  let x3 := t_sub w1i w2i in let x4 := t_add Op (t_neg w1r) w2r in
  force Op (mkT (tN w1r) (tC w1r) (2 * tH w1r) (2 * tW w1r) (fun n c i j =>
    s *r (if i mod 2 =? 0 then (if j mod 2 =? 0 then tf x1 n c (i/2) (j/2) else tf x2 n c (i/2) (j/2))
          else (if j mod 2 =? 0 then tf x3 n c (i/2) (j/2) else tf x4 n c (i/2) (j/2))))).

(* highs_to_orientations: planes in the order 2*o + ri *)
Definition highs_to_orientations (lh hl hh:ten) : list ten :=
  let '((d15r, d15i), (d165r, d165i)) := q2c lh in
  let '((d45r, d45i), (d135r, d135i)) := q2c hh in
  let '((d75r, d75i), (d105r, d105i)) := q2c hl in
  [d15r; d15i; d45r; d45i; d75r; d75i; d105r; d105i; d135r; d135i; d165r; d165i].
Definition pl (hs:list ten) (o ri:Z) : ten := nth (Z.to_nat (2*o + ri)) hs (t_zeros Op 0 0 0 0).
Definition orientations_to_highs (hs:list ten) : ten*ten*ten :=
  let lh := c2q (pl hs 0 0) (pl hs 0 1) (pl hs 5 0) (pl hs 5 1) in
  let hl := c2q (pl hs 2 0) (pl hs 2 1) (pl hs 3 0) (pl hs 3 1) in
  let hh := c2q (pl hs 1 0) (pl hs 1 1) (pl hs 4 0) (pl hs 4 1) in
  (lh, hl, hh).

Definition radd_res (a b:res ten) : res ten :=
  do x <- a; do y <- b; if same_shape x y then Ok (force Op (t_add Op x y)) else Err E_SHAPE.

(* fwd_j1 (mode: 1 symmetric else zero) *)
Definition fwd_j1 (x:ten) (L0:Z) (h0:Z->R) (L1:Z) (h1:Z->R) (skip:bool) (mode:Z) : res (ten * list ten) :=
  if skip then
    do lo <- linefilter 3 x L0 h0 mode; do ll <- linefilter 2 lo L0 h0 mode; Ok (ll, nil)
  else
    do lo <- linefilter 3 x L0 h0 mode;
    do hi <- linefilter 3 x L1 h1 mode;
    do ll <- linefilter 2 lo L0 h0 mode;
    do lh <- linefilter 2 lo L1 h1 mode;
    do hl <- linefilter 2 hi L0 h0 mode;
    do hh <- linefilter 2 hi L1 h1 mode;
    Ok (ll, highs_to_orientations lh hl hh).
(* fwd_j2plus *)
Definition fwd_j2plus (x:ten) (L0:Z) (h0a h0b:Z->R) (L1:Z) (h1a h1b:Z->R) (skip:bool) : res (ten * list ten) :=
  if skip then
    do ll0 <- dfilt 3 x L0 h0b h0a false; do ll <- dfilt 2 ll0 L0 h0b h0a false; Ok (ll, nil)
  else
    do lo <- dfilt 3 x L0 h0b h0a false;
    do hi <- dfilt 3 x L1 h1b h1a true;
    do ll <- dfilt 2 lo L0 h0b h0a false;
    do lh <- dfilt 2 lo L1 h1b h1a true;
    do hl <- dfilt 2 hi L0 h0b h0a false;
    do hh <- dfilt 2 hi L1 h1b h1a true;
    Ok (ll, highs_to_orientations lh hl hh).

Definition crop_ll (ll:ten) (r1 c1:Z) : ten :=
  let a := if negb (tH ll =? 2 * r1) then t_pyslice 2 1 (-1) ll else ll in
  if negb (tW a =? 2*c1) then t_pyslice 3 1 (-1) a else a.

(* inv_j1: ll optional, highs optional (nil = absent); colfilter(ll, g0) etc. *)
Definition inv_j1 (ll:option ten) (hs:list ten) (L0:Z) (g0:Z->R) (L1:Z) (g1:Z->R) (mode:Z) : res ten :=
  match hs with
  | nil => match ll with
           | Some l => do a <- linefilter 2 l L0 g0 M_SYMM; linefilter 3 a L0 g0 M_SYMM
           | None => Err 6 end       (* AttributeError: nothing to take a shape from *)
  | _ =>
    let '(lh, hl, hh) := orientations_to_highs hs in
    match ll with
    | None =>
        do hi <- radd_res (linefilter 2 hh L1 g1 mode) (linefilter 2 hl L0 g0 mode);
        do lo <- linefilter 2 lh L1 g1 mode;
        radd_res (linefilter 3 hi L1 g1 mode) (linefilter 3 lo L0 g0 mode)
    | Some l =>
        let l := crop_ll l (tH (pl hs 0 0)) (tW (pl hs 0 0)) in
        do hi <- radd_res (linefilter 2 hh L1 g1 mode) (linefilter 2 hl L0 g0 mode);
        do lo <- radd_res (linefilter 2 lh L1 g1 mode) (linefilter 2 l L0 g0 mode);
        radd_res (linefilter 3 hi L1 g1 mode) (linefilter 3 lo L0 g0 mode)
    end
  end.
Definition inv_j2plus (ll:option ten) (hs:list ten) (L0:Z) (g0a g0b:Z->R) (L1:Z) (g1a g1b:Z->R) : res ten :=
  match hs with
  | nil => match ll with
           | Some l => do a <- ifilt 2 l L0 g0b g0a false; ifilt 3 a L0 g0b g0a false
           | None => Err 6 end
  | _ =>
    let '(lh, hl, hh) := orientations_to_highs hs in
    match ll with
    | None =>
        do hi <- radd_res (ifilt 2 hh L1 g1b g1a true) (ifilt 2 hl L0 g0b g0a false);
        do lo <- ifilt 2 lh L1 g1b g1a true;
        radd_res (ifilt 3 hi L1 g1b g1a true) (ifilt 3 lo L0 g0b g0a false)
    | Some l =>
        do hi <- radd_res (ifilt 2 hh L1 g1b g1a true) (ifilt 2 hl L0 g0b g0a false);
        do lo <- radd_res (ifilt 2 lh L1 g1b g1a true) (ifilt 2 l L0 g0b g0a false);
        radd_res (ifilt 3 hi L1 g1b g1a true) (ifilt 3 lo L0 g0b g0a false)
    end
  end.

(* ---- modules ---- *)
Definition ext_even (x:ten) : ten :=
  let x1 := if tH x mod 2 =? 1 then t_cat 2 x (t_slice 2 (pyclip (tH x) (-1)) (tH x) 1 x) else x in
  if tW x1 mod 2 =? 1 then t_cat 3 x1 (t_slice 3 (pyclip (tW x1) (-1)) (tW x1) 1 x1) else x1.
Definition pad4 (low:ten) : ten :=
  let l1 := if negb (tH low mod 4 =? 0)
            then t_cat 2 (t_cat 2 (t_pyslice 2 0 1 low) low) (t_slice 2 (pyclip (tH low) (-1)) (tH low) 1 low) else low in
  if negb (tW l1 mod 4 =? 0)
  then t_cat 3 (t_cat 3 (t_pyslice 3 0 1 l1) l1) (t_slice 3 (pyclip (tW l1) (-1)) (tW l1) 1 l1) else l1.

(* levels 2..J: returns (final low, per-level (low, highs)) *)
Fixpoint fwd_levels (skips:list bool) (low:ten) (L0:Z) (h0a h0b:Z->R) (L1:Z) (h1a h1b:Z->R) : res (ten * list (ten * list ten)) :=
  match skips with
  | nil => Ok (low, nil)
  | sk :: rest =>
      do r <- fwd_j2plus (force Op (pad4 low)) L0 h0a h0b L1 h1a h1b sk;
      let '(l, hs) := r in
      do rr <- fwd_levels rest l L0 h0a h0b L1 h1a h1b;
      let '(fl, ls) := rr in Ok (fl, (l, hs) :: ls)
  end.
(* DTCWTForward.forward, J = length skips >= 1: (lowpass after each level, highs of each level) *)
Definition DTCWTForward (skips:list bool) (x:ten) (Lo0:Z) (h0o:Z->R) (Lo1:Z) (h1o:Z->R)
    (L0:Z) (h0a h0b:Z->R) (L1:Z) (h1a h1b:Z->R) (mode:Z) : res (list (ten * list ten)) :=
  match skips with
  | nil => Err E_VALUE
  | sk :: rest =>
      do r <- fwd_j1 (force Op (ext_even x)) Lo0 h0o Lo1 h1o sk mode;
      let '(l, hs) := r in
      do rr <- fwd_levels rest l L0 h0a h0b L1 h1a h1b;
      Ok ((l, hs) :: snd rr)
  end.

(* DTCWTInverse.forward: highs finest first; nil = absent level; low optional *)
Definition crop_opt (low:option ten) (hs:list ten) : option ten :=
  match low, hs with
  | Some l, _ :: _ => Some (crop_ll l (tH (pl hs 0 0)) (tW (pl hs 0 0)))
  | _, _ => low
  end.
Fixpoint inv_levels (low:option ten) (highs_rev:list (list ten)) (L0:Z) (g0a g0b:Z->R) (L1:Z) (g1a g1b:Z->R) : res (option ten) :=
  match highs_rev with
  | nil => Ok low
  | hs :: rest =>
      do y <- inv_j2plus (crop_opt low hs) hs L0 g0a g0b L1 g1a g1b;
      inv_levels (Some y) rest L0 g0a g0b L1 g1a g1b
  end.
Definition DTCWTInverse (low:option ten) (highs:list (list ten)) (Lo0:Z) (g0o:Z->R) (Lo1:Z) (g1o:Z->R)
    (L0:Z) (g0a g0b:Z->R) (L1:Z) (g1a g1b:Z->R) (mode:Z) : res ten :=
  match highs with
  | nil => Err E_INDEX
  | h0 :: rest =>
      do l <- inv_levels low (rev rest) L0 g0a g0b L1 g1a g1b;
      (* INV_J1 crops again inside inv_j1 (idempotent) *)
      inv_j1 (crop_opt l h0) h0 Lo0 g0o Lo1 g1o mode
  end.
(* ---- band-pass ("rot") variants used by the scattering layers: a third filter h2 for the diagonal subbands ---- *)
Definition fwd_j1_rot (x:ten) (L0:Z) (h0:Z->R) (L1:Z) (h1:Z->R) (L2:Z) (h2:Z->R) (mode:Z) : res (ten * list ten) :=
  do lo <- linefilter 3 x L0 h0 mode;
  do hi <- linefilter 3 x L1 h1 mode;
  do ba <- linefilter 3 x L2 h2 mode;
  do lh <- linefilter 2 lo L1 h1 mode;
  do hl <- linefilter 2 hi L0 h0 mode;
  do hh <- linefilter 2 ba L2 h2 mode;
  do ll <- linefilter 2 lo L0 h0 mode;
  Ok (ll, highs_to_orientations lh hl hh).
Definition fwd_j2plus_rot (x:ten) (L0:Z) (h0a h0b:Z->R) (L1:Z) (h1a h1b:Z->R) (L2:Z) (h2a h2b:Z->R) : res (ten * list ten) :=
  do lo <- dfilt 3 x L0 h0b h0a false;
  do hi <- dfilt 3 x L1 h1b h1a true;
  do ba <- dfilt 3 x L2 h2b h2a true;
  do lh <- dfilt 2 lo L1 h1b h1a true;
  do hl <- dfilt 2 hi L0 h0b h0a false;
  do hh <- dfilt 2 ba L2 h2b h2a true;
  do ll <- dfilt 2 lo L0 h0b h0a false;
  Ok (ll, highs_to_orientations lh hl hh).
(* inv_j1_rot / inv_j2plus_rot with both inputs present (the only way the scattering backward calls them) *)
Definition inv_j1_rot (l:ten) (hs:list ten) (L0:Z) (g0:Z->R) (L1:Z) (g1:Z->R) (L2:Z) (g2:Z->R) (mode:Z) : res ten :=
  let '(lh, hl, hh) := orientations_to_highs hs in
  let l := crop_ll l (tH (pl hs 0 0)) (tW (pl hs 0 0)) in
  do lo <- radd_res (linefilter 2 lh L1 g1 mode) (linefilter 2 l L0 g0 mode);
  do hi <- linefilter 2 hl L0 g0 mode;
  do ba <- linefilter 2 hh L2 g2 mode;
  radd_res (radd_res (linefilter 3 hi L1 g1 mode) (linefilter 3 lo L0 g0 mode)) (linefilter 3 ba L2 g2 mode).
Definition inv_j2plus_rot (l:ten) (hs:list ten) (L0:Z) (g0a g0b:Z->R) (L1:Z) (g1a g1b:Z->R) (L2:Z) (g2a g2b:Z->R) : res ten :=
  let '(lh, hl, hh) := orientations_to_highs hs in
  do lo <- radd_res (ifilt 2 lh L1 g1b g1a true) (ifilt 2 l L0 g0b g0a false);
  do hi <- ifilt 2 hl L0 g0b g0a false;
  do ba <- ifilt 2 hh L2 g2b g2a true;
  radd_res (radd_res (ifilt 3 hi L1 g1b g1a true) (ifilt 3 lo L0 g0b g0a false)) (ifilt 3 ba L2 g2b g2a true).
End Dtcwt.
