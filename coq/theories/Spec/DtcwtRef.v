(* Closed forms of the reference NumPy dtcwt package's column filters (dtcwt/numpy/lowlevel.py), on one column,
   derived by hand from the reference source and tied to the package by correspondence B (Run/RunSpec.v).
   xs = half-sample symmetric extension (period 2r).  Filters are as given to the reference (not reversed).
   pos = (sum(ha*hb) > 0), the data-dependent branch of the reference. *)
From PW Require Import Base.Ops Base.Sum Base.Sig Spec.Line.

Section S.
Context {R:Type} (Op:Ops R).
Infix "+r" := (radd Op) (at level 50, left associativity).
Infix "*r" := (rmul Op) (at level 40, left associativity).
Notation sumZ := (sumZ Op).

(* colfilter, odd L: Y[i] = sum_j h[j] xs[i + L/2 - j], r rows *)
Definition ref_colfilter (L r:Z) (h x:Z->R) (i:Z) : R := sumZ 0 L (fun j => h j *r ext_sym r x (i + L/2 - j)).

(* coldfilt(X, ha, hb), even m, 4 | r, r/2 rows: two decimated trees, interleaved *)
Definition ref_tree_a (m r:Z) (ha x:Z->R) (i:Z) : R := sumZ 0 m (fun j => ha j *r ext_sym r x (4*i + m - 2*j)).
Definition ref_tree_b (m r:Z) (hb x:Z->R) (i:Z) : R := sumZ 0 m (fun j => hb j *r ext_sym r x (4*i + m - 2*j + 1)).
Definition ref_coldfilt (m r:Z) (ha hb x:Z->R) (pos:bool) (k:Z) : R :=
  if Bool.eqb (k mod 2 =? 0) pos then ref_tree_a m r ha x (k/2) else ref_tree_b m r hb x (k/2).

(* colifilt(X, ha, hb), even m, 2 | r, 2r rows: row 4i+u is one polyphase branch
     sum_{k < m/2} f[2k+p] xs[2i + c - 2k]     with (f, p, c) from the table below *)
Definition ibranch (m2 r:Z) (f:Z->R) (p c:Z) (x:Z->R) (i:Z) : R :=
  sumZ 0 m2 (fun k => f (2*k + p) *r ext_sym r x (2*i + c - 2*k)).
Definition ref_colifilt (m r:Z) (ha hb x:Z->R) (pos:bool) (row:Z) : R :=
  let m2 := m / 2 in let i := row / 4 in let u := row mod 4 in
  let d := if pos then 0 else 1 in     (* the a and b trees exchange their sampling offsets when sum(ha*hb) <= 0 *)
  if m2 mod 2 =? 0 then
    (if u =? 0 then ibranch m2 r ha 1 (m2 - 2 + d) x i
     else if u =? 1 then ibranch m2 r hb 1 (m2 - 1 - d) x i
     else if u =? 2 then ibranch m2 r ha 0 (m2 + d) x i
     else ibranch m2 r hb 0 (m2 + 1 - d) x i)
  else
    (if u =? 0 then ibranch m2 r ha 0 (m2 - 1 + d) x i
     else if u =? 1 then ibranch m2 r hb 0 (m2 - d) x i
     else if u =? 2 then ibranch m2 r ha 1 (m2 - 1 + d) x i
     else ibranch m2 r hb 1 (m2 - d) x i).
End S.
