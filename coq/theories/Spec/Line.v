(* Line-level (1-D) normal forms and PyWavelets' closed forms. *)
From PW Require Import Base.Ops Base.Sum Base.Sig.

Section S.
Context {R:Type} (Op:Ops R).
Infix "+r" := (radd Op) (at level 50, left associativity).
Infix "*r" := (rmul Op) (at level 40, left associativity).
Notation sumZ := (sumZ Op).
Notation zx := (zx Op).

(* extensions of a signal of length N to the whole line *)
Definition ext_zero (N:Z) (x:Z->R) : Z->R := zx N x.
Definition ext_sym (N:Z) (x:Z->R) : Z->R := fun i => x (sym_idx N i).
Definition ext_wrap (N:Z) (x:Z->R) : Z->R := fun i => x (i mod N).
(* whole-sample symmetric, period 2N-2 (N >= 2) *)
Definition refl_full (N i:Z) : Z := let m := i mod (2*N-2) in if m <? N then m else 2*N-2-m.
Definition ext_refl (N:Z) (x:Z->R) : Z->R := fun i => x (refl_full N i).
Definition ext_of (mode N:Z) (x:Z->R) : Z->R :=
  if mode =? 0 then ext_zero N x else if mode =? 1 then ext_sym N x
  else if mode =? 4 then ext_refl N x else ext_wrap N x.

(* analysis with the registered (time-reversed) filter h on an extended signal e *)
Definition ana (L:Z) (h e:Z->R) (k:Z) : R := sumZ 0 L (fun b => h b *r e (2*k + b - (L-2))).
(* periodization: circular correlation on the even-extended signal of length N' *)
Definition ana_per (L N':Z) (h x':Z->R) (k:Z) : R := sumZ 0 L (fun b => h b *r x' ((2*k + b - (L-1) + L/2) mod N')).
(* even extension x' of a signal of length N: duplicate the last sample *)
Definition even_ext (N:Z) (x:Z->R) : Z->R := fun i => if i <? N then x i else x (N-1).
Definition even_len (N:Z) : Z := if N mod 2 =? 1 then N+1 else N.

(* PyWavelets closed forms, dec = decomposition filter (not reversed) *)
Definition rev_filt (L:Z) (h:Z->R) : Z->R := fun m => h (L-1-m).
Definition pywt_dwt (mode L N:Z) (dec x:Z->R) (k:Z) : R := sumZ 0 L (fun m => dec m *r ext_of mode N x (2*k + 1 - m)).
Definition pywt_dwt_per (L N:Z) (dec x:Z->R) (k:Z) : R :=
  sumZ 0 L (fun m => dec m *r even_ext N x ((2*k + L/2 - m) mod even_len N)).

(* synthesis: transposed convolution, padding L-2 *)
Definition syn (L n:Z) (g0 g1 lo hi:Z->R) (m:Z) : R :=
  sumZ 0 n (fun k => lo k *r zx L g0 (m + (L-2) - 2*k) +r hi k *r zx L g1 (m + (L-2) - 2*k)).
(* periodization synthesis: circular, output length N = 2n *)
Definition syn_per (L n:Z) (g0 g1 lo hi:Z->R) (i:Z) : R :=
  sumZ 0 n (fun k => sumZ 0 L (fun a => if (i + L/2 - 1 - 2*k - a) mod (2*n) =? 0 then lo k *r g0 a +r hi k *r g1 a else r0 Op)).
End S.
