(* C02 - perfect reconstruction (line level).  Statements only. *)
From PW Require Import Base.Ops Base.Sum Base.Sig Spec.Line Proofs.LineTheory.

(* master identity: synthesis (window [ka,kb)) of the analysis of ANY signal on the line = the signal filtered by the
   kernel Pk built from the four filters; no hypothesis on the filters *)
Theorem C02_line_pr :
  forall (R:Type) (Op:Ops R) (Rth:RingOk Op) (L:Z) (d0 d1 g0 g1:Z->R), 0 <= L -> forall ka kb X i,
  synL Op L g0 g1 ka kb (anaL Op L d0 X) (anaL Op L d1 X) i
  = sumZ Op (1-L) L (fun d => rmul Op (X (i - d)) (Pk Op L d0 d1 g0 g1 ka kb i d)).
Proof. intros. apply line_pr; assumption. Qed.
Print Assumptions C02_line_pr.

(* with the perfect-reconstruction kernel condition the reconstruction is exact, for every extension X of the signal
   (zero / symmetric / reflect / periodic are four choices of X) *)
Theorem C02_line_pr_exact :
  forall (R:Type) (Op:Ops R) (Rth:RingOk Op) (L:Z) (d0 d1 g0 g1:Z->R), 0 <= L -> forall ka kb X i,
  (forall d, 1-L <= d < L -> Pk Op L d0 d1 g0 g1 ka kb i d = delta Op d) -> 0 < L ->
  synL Op L g0 g1 ka kb (anaL Op L d0 X) (anaL Op L d1 X) i = X i.
Proof. intros. apply line_pr_exact; assumption. Qed.
Print Assumptions C02_line_pr_exact.

(* the kernel does not depend on the window once it contains every coefficient with a live tap *)
Theorem C02_kernel_window :
  forall (R:Type) (Op:Ops R) (Rth:RingOk Op) (L:Z) (d0 d1 g0 g1:Z->R) ka kb ka' kb' i d,
  ka' <= ka -> ka <= kb -> kb <= kb' ->
  (forall k, ka' <= k < kb' -> ~(ka <= k < kb) -> ~(0 <= i + (L-2) - 2*k < L)) ->
  Pk Op L d0 d1 g0 g1 ka' kb' i d = Pk Op L d0 d1 g0 g1 ka kb i d.
Proof. intros. apply Pk_window; assumption. Qed.
Print Assumptions C02_kernel_window.

(* non-vacuity: Haar over Z (unnormalised: dec = (1,1),(-1,1); rec = (1,1),(1,-1); kernel = 2*delta), window [0,3) *)
Example C02_haar_kernel :
  Pk ZOps 2 (fun m => 1) (fun m => if m =? 0 then -1 else 1) (fun a => 1) (fun a => if a =? 0 then 1 else -1) 0 3 2 0 = 2 /\
  Pk ZOps 2 (fun m => 1) (fun m => if m =? 0 then -1 else 1) (fun a => 1) (fun a => if a =? 0 then 1 else -1) 0 3 2 1 = 0 /\
  Pk ZOps 2 (fun m => 1) (fun m => if m =? 0 then -1 else 1) (fun a => 1) (fun a => if a =? 0 then 1 else -1) 0 3 2 (-1) = 0.
Proof. vm_compute. repeat split. Qed.
