(* C02 - perfect reconstruction (line level).  Statements only. *)
From PW Require Import Base.Ops Base.Sum Base.Sig Base.Tensor Model.Dwt Spec.Line Proofs.DwtNF Proofs.LineTheory Proofs.C01Proofs Proofs.C02Proofs Proofs.CircPR Proofs.C02ProofsPer Proofs.SfbNF Proofs.C02Proofs2D Proofs.Per2D.

(* master identity: synthesis (window [ka,kb)) of the analysis of ANY signal on the line = the signal filtered by the
   kernel Pk built from the four filters; no hypothesis on the filters *)
Theorem C02_line_pr :
  forall (R:Type) (Op:Ops R) (Rth:RingOk Op) (L:Z) (d0 d1 g0 g1:Z->R), 0 <= L -> forall ka kb X i,
  synL Op L g0 g1 ka kb (anaL Op L d0 X) (anaL Op L d1 X) i
  = sumZ Op (1-L) L (fun d => rmul Op (X (i - d)) (Pk Op L d0 d1 g0 g1 ka kb i d)).
Proof. intros. apply line_pr; assumption. Qed.
Print Assumptions C02_line_pr.

(* with the perfect-reconstruction kernel condition the reconstruction is exact, for every extension X of the signal
   (zero / symmetric / reflect / periodic are four choices of X) *)
Theorem C02_line_pr_exact :
  forall (R:Type) (Op:Ops R) (Rth:RingOk Op) (L:Z) (d0 d1 g0 g1:Z->R), 0 <= L -> forall ka kb X i,
  (forall d, 1-L <= d < L -> Pk Op L d0 d1 g0 g1 ka kb i d = delta Op d) -> 0 < L ->
  synL Op L g0 g1 ka kb (anaL Op L d0 X) (anaL Op L d1 X) i = X i.
Proof. intros. apply line_pr_exact; assumption. Qed.
Print Assumptions C02_line_pr_exact.

(* the kernel does not depend on the window once it contains every coefficient with a live tap *)
Theorem C02_kernel_window :
  forall (R:Type) (Op:Ops R) (Rth:RingOk Op) (L:Z) (d0 d1 g0 g1:Z->R) ka kb ka' kb' i d,
  ka' <= ka -> ka <= kb -> kb <= kb' ->
  (forall k, ka' <= k < kb' -> ~(ka <= k < kb) -> ~(0 <= i + (L-2) - 2*k < L)) ->
  Pk Op L d0 d1 g0 g1 ka' kb' i d = Pk Op L d0 d1 g0 g1 ka kb i d.
Proof. intros. apply Pk_window; assumption. Qed.
Print Assumptions C02_kernel_window.

(* ---- on the tensor-level model of the code ---- *)
(* one level, four non-periodization modes, every size: SFB1D (AFB1D x) = x on the extent, output one sample longer for odd
   sizes, under the filter-only kernel condition PRcond (kernel of both output parities = unit impulse) *)
Theorem C02_level_1d :
  forall (R:Type) (Op:Ops R) (Rth:RingOk Op) (x:@ten R) L d0 d1 g0 g1 mode,
  2 <= L -> 1 <= tW x -> 1 <= tH x -> 0 < tC x -> level_ok mode L (tW x) -> (mode = M_REFLECT -> 2 <= tW x) ->
  PRcond Op L d0 d1 g0 g1 ->
  is_ok (AFB1D_fwd Op x L (rev_filt L d0) (rev_filt L d1) mode) (fun r =>
    is_ok (SFB1D_fwd Op (fst r) (snd r) L g0 g1 mode) (fun y =>
      tN y = tN x /\ tC y = tC x /\ tH y = tH x /\ tW x <= tW y <= tW x + 1 /\
      forall n c i j, 0 <= c < tC x -> 0 <= i < tH x -> 0 <= j < tW x -> tf y n c i j = tf x n c i j)).
Proof. exact @pr_level_1d. Qed.
Print Assumptions C02_level_1d.

(* every J: DWT1DInverse (DWT1DForward x) = x on the extent, including the unpad rule for one-sample-longer lowpasses *)
Theorem C02_multilevel_1d :
  forall (R:Type) (Op:Ops R) (Rth:RingOk Op) (J:nat) (x:@ten R) L d0 d1 g0 g1 mode,
  2 <= L -> 1 <= tH x -> 0 < tC x -> 1 <= tW x -> levels_ok J mode L (tW x) -> PRcond Op L d0 d1 g0 g1 ->
  is_ok (DWT1DForward Op J x L (rev_filt L d0) (rev_filt L d1) mode) (fun r =>
    is_ok (DWT1DInverse Op (fst r) (map Some (snd r)) L g0 g1 mode) (fun y =>
      tN y = tN x /\ tC y = tC x /\ tH y = tH x /\ tW x <= tW y <= tW x + 1 /\
      forall nn c i j, 0 <= c < tC x -> 0 <= i < tH x -> 0 <= j < tW x -> tf y nn c i j = tf x nn c i j)).
Proof. intros R Op Rth J. exact (pr_multilevel_1d Op Rth J). Qed.
Print Assumptions C02_multilevel_1d.

(* ---- periodization ---- *)
(* the circular transform reconstructs for EVERY even length N (also below the filter length), under the same kernel condition *)
Theorem C02_circular_pr :
  forall (R:Type) (Op:Ops R) (Rth:RingOk Op) (L N:Z) (d0 d1 g0 g1 x:Z->R) i, 2 <= L -> L mod 2 = 0 -> 0 < N -> N mod 2 = 0 ->
  PRcond Op L d0 d1 g0 g1 -> 0 <= i < N ->
  syn_per Op L (N/2) g0 g1 (ana_per Op L N (rev_filt L d0) x) (ana_per Op L N (rev_filt L d1) x) i = x i.
Proof. exact @circ_pr. Qed.
Print Assumptions C02_circular_pr.

(* on the model of the code: one level (odd widths: extended by the duplicated last sample, output one longer), guard L <= even_len W
   (below it the code's single fold is not the circular transform: known finding KF-PER-SHORT) *)
Theorem C02_level_1d_per :
  forall (R:Type) (Op:Ops R) (Rth:RingOk Op) (x:@ten R) L d0 d1 g0 g1,
  2 <= L -> L mod 2 = 0 -> L <= even_len (tW x) -> 1 <= tW x -> 1 <= tH x -> 0 < tC x -> PRcond Op L d0 d1 g0 g1 ->
  is_ok (AFB1D_fwd Op x L (rev_filt L d0) (rev_filt L d1) M_PER) (fun r =>
    is_ok (SFB1D_fwd Op (fst r) (snd r) L g0 g1 M_PER) (fun y =>
      tN y = tN x /\ tC y = tC x /\ tH y = tH x /\ tW y = even_len (tW x) /\
      forall n c i j, 0 <= c < tC x -> 0 <= i < tH x -> 0 <= j < tW x -> tf y n c i j = tf x n c i j)).
Proof. exact @pr_level_1d_per. Qed.
Print Assumptions C02_level_1d_per.

(* every J *)
Theorem C02_multilevel_1d_per :
  forall (R:Type) (Op:Ops R) (Rth:RingOk Op) (J:nat) (x:@ten R) L d0 d1 g0 g1,
  2 <= L -> L mod 2 = 0 -> 1 <= tH x -> 0 < tC x -> 1 <= tW x -> levels_ok_per J L (tW x) -> PRcond Op L d0 d1 g0 g1 ->
  is_ok (DWT1DForward Op J x L (rev_filt L d0) (rev_filt L d1) M_PER) (fun r =>
    is_ok (DWT1DInverse Op (fst r) (map Some (snd r)) L g0 g1 M_PER) (fun y =>
      tN y = tN x /\ tC y = tC x /\ tH y = tH x /\ tW x <= tW y <= tW x + 1 /\
      forall nn c i j, 0 <= c < tC x -> 0 <= i < tH x -> 0 <= j < tW x -> tf y nn c i j = tf x nn c i j)).
Proof. intros R Op Rth J. exact (pr_multilevel_1d_per Op Rth J). Qed.
Print Assumptions C02_multilevel_1d_per.

(* non-vacuity of PRcond over Z: the lazy (polyphase-split) bank of length 2, and a 3-level periodization instance of the guard *)
Example C02_PRcond_lazy :
  PRcond ZOps 2 (fun m => if m =? 0 then 0 else 1) (fun m => if m =? 0 then 1 else 0) (fun m => if m =? 0 then 1 else 0) (fun m => if m =? 0 then 0 else 1).
Proof.
  intros p d Hp Hd. assert (Hp': p = 0 \/ p = 1) by lia. assert (Hd': d = -1 \/ d = 0 \/ d = 1) by lia.
  destruct Hp' as [->| ->]; destruct Hd' as [->|[->| ->]]; vm_compute; reflexivity.
Qed.
Example C02_levels_ok_per_example : levels_ok_per 3 2 13.
Proof. cbn [levels_ok_per]. unfold even_len. cbn. repeat split; lia. Qed.

(* ---- two dimensions, separate row and column banks (the 4-tuple form), four non-periodization modes ---- *)
(* recon2d x y: y has the batch/channel shape of x, one row/column more at most, and equals x on the extent of x *)
Theorem C02_level_2d :
  forall (R:Type) (Op:Ops R) (Rth:RingOk Op) (x:@ten R) Lr dr0 dr1 gr0 gr1 Lc dc0 dc1 gc0 gc1 mode,
  2 <= Lr -> 2 <= Lc -> 1 <= tW x -> 1 <= tH x -> 0 < tC x -> level_ok2 mode Lr Lc (tH x) (tW x) ->
  PRcond Op Lr dr0 dr1 gr0 gr1 -> PRcond Op Lc dc0 dc1 gc0 gc1 ->
  is_ok (AFB2D_fwd Op x Lr (rev_filt Lr dr0) (rev_filt Lr dr1) Lc (rev_filt Lc dc0) (rev_filt Lc dc1) mode) (fun r =>
    is_ok (SFB2D_fwd Op (fst r) (snd r) Lr gr0 gr1 Lc gc0 gc1 mode) (fun y =>
      tN y = tN x /\ tC y = tC x /\ tH x <= tH y <= tH x + 1 /\ tW x <= tW y <= tW x + 1 /\
      forall n c i j, 0 <= c < tC x -> 0 <= i < tH x -> 0 <= j < tW x -> tf y n c i j = tf x n c i j)).
Proof. exact @pr_level_2d. Qed.
Print Assumptions C02_level_2d.

(* every J: DWTInverse (DWTForward x) = x on the extent, including the row and column unpad rules of the level loop *)
Theorem C02_multilevel_2d :
  forall (R:Type) (Op:Ops R) (Rth:RingOk Op) (J:nat) (x:@ten R) Lr dr0 dr1 gr0 gr1 Lc dc0 dc1 gc0 gc1 mode,
  2 <= Lr -> 2 <= Lc -> 0 < tC x -> 1 <= tW x -> 1 <= tH x -> levels_ok2 J mode Lr Lc (tH x) (tW x) ->
  PRcond Op Lr dr0 dr1 gr0 gr1 -> PRcond Op Lc dc0 dc1 gc0 gc1 ->
  is_ok (DWTForward Op J x Lr (rev_filt Lr dr0) (rev_filt Lr dr1) Lc (rev_filt Lc dc0) (rev_filt Lc dc1) mode) (fun r =>
    is_ok (DWTInverse Op (fst r) (map Some (snd r)) Lr gr0 gr1 Lc gc0 gc1 mode) (fun y =>
      tN y = tN x /\ tC y = tC x /\ tH x <= tH y <= tH x + 1 /\ tW x <= tW y <= tW x + 1 /\
      forall n c i j, 0 <= c < tC x -> 0 <= i < tH x -> 0 <= j < tW x -> tf y n c i j = tf x n c i j)).
Proof. intros R Op Rth J. exact (pr_multilevel_2d Op Rth J). Qed.
Print Assumptions C02_multilevel_2d.
Example C02_levels_ok2_example : levels_ok2 3 M_SYMM 4 2 13 10.
Proof. cbn [levels_ok2]. unfold level_ok2, level_ok, nonper_mode, M_SYMM, M_REFLECT, M_ZERO, M_PERIODIC. cbn. repeat split; try lia; try (left; reflexivity); try (right; left; reflexivity); intros E; discriminate E. Qed.

(* two dimensions, periodization, every J, guard: filter length <= even length of both axes at every level *)
Theorem C02_multilevel_2d_per :
  forall (R:Type) (Op:Ops R) (Rth:RingOk Op) (J:nat) (x:@ten R) Lr dr0 dr1 gr0 gr1 Lc dc0 dc1 gc0 gc1,
  2 <= Lr -> Lr mod 2 = 0 -> 2 <= Lc -> Lc mod 2 = 0 -> 0 < tC x -> 1 <= tW x -> 1 <= tH x -> levels_ok2_per J Lr Lc (tH x) (tW x) ->
  PRcond Op Lr dr0 dr1 gr0 gr1 -> PRcond Op Lc dc0 dc1 gc0 gc1 ->
  is_ok (DWTForward Op J x Lr (rev_filt Lr dr0) (rev_filt Lr dr1) Lc (rev_filt Lc dc0) (rev_filt Lc dc1) M_PER) (fun r =>
    is_ok (DWTInverse Op (fst r) (map Some (snd r)) Lr gr0 gr1 Lc gc0 gc1 M_PER) (fun y =>
      tN y = tN x /\ tC y = tC x /\ tH x <= tH y <= tH x + 1 /\ tW x <= tW y <= tW x + 1 /\
      forall n c i j, 0 <= c < tC x -> 0 <= i < tH x -> 0 <= j < tW x -> tf y n c i j = tf x n c i j)).
Proof. intros R Op Rth J. exact (pr_multilevel_2d_per Op Rth J). Qed.
Print Assumptions C02_multilevel_2d_per.
Example C02_levels_ok2_per_example : levels_ok2_per 2 4 2 13 10.
Proof. cbn [levels_ok2_per]. unfold even_len. cbn. repeat split; lia. Qed.

(* the filter side (kernel residual of all 106 PyWavelets banks, C02_pywt_kernels, and the error bound it implies, C02_error_bound_Z)
   is in Props/C02Kernels.v: its proof is a 50 s vm_compute that the independent checker coqchk cannot replay in reasonable time *)

(* non-vacuity: Haar over Z (unnormalised: dec = (1,1),(-1,1); rec = (1,1),(1,-1); kernel = 2*delta), window [0,3) *)
Example C02_haar_kernel :
  Pk ZOps 2 (fun m => 1) (fun m => if m =? 0 then -1 else 1) (fun a => 1) (fun a => if a =? 0 then 1 else -1) 0 3 2 0 = 2 /\
  Pk ZOps 2 (fun m => 1) (fun m => if m =? 0 then -1 else 1) (fun a => 1) (fun a => if a =? 0 then 1 else -1) 0 3 2 1 = 0 /\
  Pk ZOps 2 (fun m => 1) (fun m => if m =? 0 then -1 else 1) (fun a => 1) (fun a => if a =? 0 then 1 else -1) 0 3 2 (-1) = 0.
Proof. vm_compute. repeat split. Qed.
