(* C13 - stationary WT: undecimated, equals PyWavelets' closed form, shift-equivariant (one level, row pass). *)
From PW Require Import Base.Ops Base.Sum Base.Sig Base.Tensor Model.Dwt Spec.Line Proofs.DwtNF Proofs.SwtProofs.

Theorem C13_level_row :
  forall (R:Type) (Op:Ops R) (Rth:RingOk Op) (x:@ten R) (L:Z) (h0 h1:Z->R) (dil:Z),
  2 <= L -> L mod 2 = 0 -> 1 <= dil -> 1 <= tW x -> 1 <= tH x -> 0 < tC x ->
  is_ok (afb1d_atrous Op x L h0 h1 M_PERIODIC 3 dil)
    (afb_row_spec x (tW x) (fun n oc i j => swt_line Op L (tW x) dil (hsel h0 h1 oc) (fun q => tf x n (oc/2) i q) j)).
Proof. exact @atrous_periodic_row. Qed.
Print Assumptions C13_level_row.

Theorem C13_closed_form :
  forall (R:Type) (Op:Ops R) (Rth:RingOk Op) L N d (dec x:Z->R) j, L mod 2 = 0 ->
  swt_line Op L N d (rev_filt L dec) x j = pywt_swt Op L N d dec x j.
Proof. exact @swt_line_pywt. Qed.
Print Assumptions C13_closed_form.

Theorem C13_shift :
  forall (R:Type) (Op:Ops R) (Rth:RingOk Op) L N d (h x:Z->R) s j, 0 < N ->
  swt_line Op L N d h (fun q => x ((q + s) mod N)) j = swt_line Op L N d h x (j + s).
Proof. intros R Op _. exact (@swt_shift R Op). Qed.
Print Assumptions C13_shift.
