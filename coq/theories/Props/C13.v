(* C13 - stationary WT: undecimated, equals PyWavelets' closed form, shift-equivariant (one level, row pass). *)
From PW Require Import Base.Ops Base.Sum Base.Sig Base.Tensor Model.Dwt Spec.Line Proofs.DwtNF Proofs.DwtNFcol Proofs.SwtProofs Proofs.SwtProofs2D.

Theorem C13_level_row :
  forall (R:Type) (Op:Ops R) (Rth:RingOk Op) (x:@ten R) (L:Z) (h0 h1:Z->R) (dil:Z),
  2 <= L -> L mod 2 = 0 -> 1 <= dil -> 1 <= tW x -> 1 <= tH x -> 0 < tC x ->
  is_ok (afb1d_atrous Op x L h0 h1 M_PERIODIC 3 dil)
    (afb_row_spec x (tW x) (fun n oc i j => swt_line Op L (tW x) dil (hsel h0 h1 oc) (fun q => tf x n (oc/2) i q) j)).
Proof. exact @atrous_periodic_row. Qed.
Print Assumptions C13_level_row.

Theorem C13_closed_form :
  forall (R:Type) (Op:Ops R) (Rth:RingOk Op) L N d (dec x:Z->R) j, L mod 2 = 0 ->
  swt_line Op L N d (rev_filt L dec) x j = pywt_swt Op L N d dec x j.
Proof. exact @swt_line_pywt. Qed.
Print Assumptions C13_closed_form.

Theorem C13_shift :
  forall (R:Type) (Op:Ops R) (Rth:RingOk Op) L N d (h x:Z->R) s j, 0 < N ->
  swt_line Op L N d h (fun q => x ((q + s) mod N)) j = swt_line Op L N d h x (j + s).
Proof. intros R Op _. exact (@swt_shift R Op). Qed.
Print Assumptions C13_shift.

(* column twin, one 2-D level, and every J of the module (the default mode periodization is mapped to periodic):
   swt_level d x y: y has 4C channels at FULL input resolution, channel 4c + 2t + s = row band t / column band s of channel c, each
   the swt2 closed form axis by axis with dilation d; swt_rel: level k uses dilation 2^(k-1) on the approximation band of level k-1 *)
Theorem C13_level_col :
  forall (R:Type) (Op:Ops R) (Rth:RingOk Op) (x:@ten R) (L:Z) (h0 h1:Z->R) (dil:Z),
  2 <= L -> L mod 2 = 0 -> 1 <= dil -> 1 <= tW x -> 1 <= tH x -> 0 < tC x ->
  is_ok (afb1d_atrous Op x L h0 h1 M_PERIODIC 2 dil)
    (afb_col_spec x (tH x) (fun n oc i j => swt_line Op L (tH x) dil (hsel h0 h1 oc) (fun q => tf x n (oc/2) q j) i)).
Proof. exact @atrous_periodic_col. Qed.
Print Assumptions C13_level_col.
Theorem C13_level_2d :
  forall (R:Type) (Op:Ops R) (Rth:RingOk Op) (x:@ten R) Lr h0r h1r Lc h0c h1c dil,
  2 <= Lr -> Lr mod 2 = 0 -> 2 <= Lc -> Lc mod 2 = 0 -> 1 <= dil -> 1 <= tW x -> 1 <= tH x -> 0 < tC x ->
  is_ok (afb2d_atrous Op x Lr h0r h1r Lc h0c h1c M_PERIODIC dil) (swt_level Op Lr h0r h1r Lc h0c h1c dil x).
Proof. exact @afb2d_atrous_swt2. Qed.
Print Assumptions C13_level_2d.
Theorem C13_multilevel :
  forall (R:Type) (Op:Ops R) (Rth:RingOk Op) (J:nat) (x:@ten R) Lr h0r h1r Lc h0c h1c mode, mode = M_PER \/ mode = M_PERIODIC ->
  2 <= Lr -> Lr mod 2 = 0 -> 2 <= Lc -> Lc mod 2 = 0 -> 1 <= tW x -> 1 <= tH x -> 0 < tC x ->
  is_ok (SWTForward Op J x Lr h0r h1r Lc h0c h1c mode)
    (fun ys => swt_rel Op (swt_level Op Lr h0r h1r Lc h0c h1c) J 1 x ys /\ length ys = J).
Proof. exact @SWTForward_levels. Qed.
Print Assumptions C13_multilevel.

