(* C10 - DWT synthesis equals PyWavelets on arbitrary coefficient pyramids (one level, row pass).  Statements only. *)
From PW Require Import Base.Ops Base.Sum Base.Sig Base.Tensor Model.Dwt Spec.Line Proofs.DwtNF Proofs.LineTheory Proofs.SfbNF Proofs.C10Proofs Proofs.C10Proofs2D Proofs.Per2D Proofs.MultiSpecInv.

(* zero / symmetric / reflect / periodic: for ANY lo, hi of equal shape (not only transforms of a signal) the model of
   sfb1d returns PyWavelets' idwt closed form  sum_k lo[k] rec_lo[m+L-2-2k] + hi[k] rec_hi[m+L-2-2k], length 2n-L+2 *)
Theorem C10_level_nonper_row :
  forall (R:Type) (Op:Ops R) (Rth:RingOk Op) (lo hi:@ten R) (L:Z) (g0 g1:Z->R) (mode:Z),
  nonper_mode mode -> same_shape lo hi = true -> 2 <= L -> 1 <= tH lo -> 1 <= 2 * tW lo - L + 2 ->
  is_ok (sfb1d Op lo hi L g0 g1 mode 3)
    (sfb_row_spec lo (2 * tW lo - L + 2)
       (fun n c i m => syn Op L (tW lo) g0 g1 (fun k => tf lo n c i k) (fun k => tf hi n c i k) m)).
Proof. exact @sfb1d_nonper_row. Qed.
Print Assumptions C10_level_nonper_row.

(* periodization, guard L-2 <= 2n: the single fold + roll is the circular synthesis (PyWavelets' closed form) *)
Theorem C10_level_per_row :
  forall (R:Type) (Op:Ops R) (Rth:RingOk Op) (lo hi:@ten R) (L:Z) (g0 g1:Z->R),
  same_shape lo hi = true -> 2 <= L -> L mod 2 = 0 -> 1 <= tH lo -> 1 <= tW lo -> L - 2 <= 2 * tW lo ->
  is_ok (sfb1d Op lo hi L g0 g1 M_PER 3)
    (sfb_row_spec lo (2 * tW lo)
       (fun n c i m => syn_per Op L (tW lo) g0 g1 (fun k => tf lo n c i k) (fun k => tf hi n c i k) m)).
Proof. exact @sfb1d_per_row_circ. Qed.
Print Assumptions C10_level_per_row.

(* one 2-D level (SFB2D.forward) on ANY lowpass and ANY three detail bands of equal shape: PyWavelets' idwt2 axis by axis,
   column pair along the rows axis first, then the row pair along the last axis *)
Theorem C10_level_2d :
  forall (R:Type) (Op:Ops R) (Rth:RingOk Op) (low highs:@ten R) Lr gr0 gr1 Lc gc0 gc1 mode, nonper_mode mode ->
  tN highs = tN low -> tC highs = 3 * tC low -> tH highs = tH low -> tW highs = tW low ->
  2 <= Lr -> 2 <= Lc -> 0 < tC low -> 1 <= tW low -> 1 <= tH low -> 1 <= 2 * tH low - Lc + 2 -> 1 <= 2 * tW low - Lr + 2 ->
  is_ok (SFB2D_fwd Op low highs Lr gr0 gr1 Lc gc0 gc1 mode)
    (fun y => tN y = tN low /\ tC y = tC low /\ tH y = 2 * tH low - Lc + 2 /\ tW y = 2 * tW low - Lr + 2 /\
       forall n c i j, 0 <= c < tC low -> 0 <= i < 2 * tH low - Lc + 2 -> 0 <= j < 2 * tW low - Lr + 2 ->
         tf y n c i j = pywt_idwt2 Op Lr gr0 gr1 Lc gc0 gc1 (tH low) (tW low)
                          (fun p q => tf low n c p q) (fun p q => tf highs n (3*c) p q)
                          (fun p q => tf highs n (3*c+1) p q) (fun p q => tf highs n (3*c+2) p q) i j).
Proof. exact @SFB2D_pywt. Qed.
Print Assumptions C10_level_2d.

(* periodization: circular idwt2 for ANY four bands, under the guard filter length - 2 <= output length of each axis *)
Theorem C10_level_2d_per :
  forall (R:Type) (Op:Ops R) (Rth:RingOk Op) (low highs:@ten R) Lr gr0 gr1 Lc gc0 gc1,
  tN highs = tN low -> tC highs = 3 * tC low -> tH highs = tH low -> tW highs = tW low ->
  2 <= Lr -> Lr mod 2 = 0 -> 2 <= Lc -> Lc mod 2 = 0 -> 0 < tC low -> 1 <= tW low -> 1 <= tH low ->
  Lc - 2 <= 2 * tH low -> Lr - 2 <= 2 * tW low ->
  is_ok (SFB2D_fwd Op low highs Lr gr0 gr1 Lc gc0 gc1 M_PER)
    (fun y => tN y = tN low /\ tC y = tC low /\ tH y = 2 * tH low /\ tW y = 2 * tW low /\
       forall n c i j, 0 <= c < tC low -> 0 <= i < 2 * tH low -> 0 <= j < 2 * tW low ->
         tf y n c i j = pywt_idwt2_per Op Lr gr0 gr1 Lc gc0 gc1 (tH low) (tW low)
                          (fun p q => tf low n c p q) (fun p q => tf highs n (3*c) p q)
                          (fun p q => tf highs n (3*c+1) p q) (fun p q => tf highs n (3*c+2) p q) i j).
Proof. exact @SFB2D_pywt_per. Qed.
Print Assumptions C10_level_2d_per.

(* ---- every J, ANY pyramid whose shapes chain: the level loops return waverec / waverec2 ----
   waverec_rel lev x0 hs y (hs coarsest first, as the loop consumes them): each step z = lev (running lowpass) (detail level);
   invlevel1d / invlevel2d (Proofs/MultiSpecInv.v): the step is PyWavelets' closed form (syn / pywt_idwt2) of the running lowpass -
   whose extra last row/column, if any, is never read - and the detail level; a None level is a level of zeros of the running
   lowpass' OWN size (so one sample longer than `zeros on the signal's extent' when the lowpass is oversize: KF-NONE-OVERSIZE);
   chain1 / chain2: the shape conditions under which PyWavelets accepts the pyramid *)
Theorem C10_multilevel_1d :
  forall (R:Type) (Op:Ops R) (Rth:RingOk Op) L g0 g1 mode, nonper_mode mode -> 2 <= L ->
  forall (hs:list (option (@ten R))) (x0:@ten R), 1 <= tH x0 -> 1 <= tW x0 ->
  chain1 (fun n => 1 <= n /\ 1 <= 2*n - L + 2) (fun n => 2*n - L + 2) x0 (tW x0) hs ->
  is_ok (DWT1DInverse_rev Op x0 hs L g0 g1 mode)
    (waverec_rel (invlevel1d Op (fun n lo hi m => syn Op L n g0 g1 lo hi m) (fun n => 2*n - L + 2)) x0 hs).
Proof. exact @waverec_1d. Qed.
Print Assumptions C10_multilevel_1d.
Theorem C10_multilevel_1d_per :
  forall (R:Type) (Op:Ops R) (Rth:RingOk Op) L g0 g1, 2 <= L -> L mod 2 = 0 ->
  forall (hs:list (option (@ten R))) (x0:@ten R), 1 <= tH x0 -> 1 <= tW x0 ->
  chain1 (fun n => 1 <= n /\ L - 2 <= 2*n) (fun n => 2*n) x0 (tW x0) hs ->
  is_ok (DWT1DInverse_rev Op x0 hs L g0 g1 M_PER)
    (waverec_rel (invlevel1d Op (fun n lo hi m => syn_per Op L n g0 g1 lo hi m) (fun n => 2*n)) x0 hs).
Proof. exact @waverec_1d_per. Qed.
Print Assumptions C10_multilevel_1d_per.
Theorem C10_multilevel_2d :
  forall (R:Type) (Op:Ops R) (Rth:RingOk Op) Lr gr0 gr1 Lc gc0 gc1 mode, nonper_mode mode -> 2 <= Lr -> 2 <= Lc ->
  forall (hs:list (option (@ten R))) (ll:@ten R), 0 < tC ll -> 1 <= tH ll -> 1 <= tW ll ->
  chain2 (fun n => 1 <= n /\ 1 <= 2*n - Lc + 2) (fun n => 1 <= n /\ 1 <= 2*n - Lr + 2) (fun n => 2*n - Lc + 2) (fun n => 2*n - Lr + 2) ll (tH ll) (tW ll) hs ->
  is_ok (DWTInverse_rev Op ll hs Lr gr0 gr1 Lc gc0 gc1 mode)
    (waverec_rel (invlevel2d Op (fun hh ww a b c d i j => pywt_idwt2 Op Lr gr0 gr1 Lc gc0 gc1 hh ww a b c d i j)
                             (fun n => 2*n - Lc + 2) (fun n => 2*n - Lr + 2)) ll hs).
Proof. exact @waverec_2d. Qed.
Print Assumptions C10_multilevel_2d.
Theorem C10_multilevel_2d_per :
  forall (R:Type) (Op:Ops R) (Rth:RingOk Op) Lr gr0 gr1 Lc gc0 gc1, 2 <= Lr -> Lr mod 2 = 0 -> 2 <= Lc -> Lc mod 2 = 0 ->
  forall (hs:list (option (@ten R))) (ll:@ten R), 0 < tC ll -> 1 <= tH ll -> 1 <= tW ll ->
  chain2 (fun n => 1 <= n /\ Lc - 2 <= 2*n) (fun n => 1 <= n /\ Lr - 2 <= 2*n) (fun n => 2*n) (fun n => 2*n) ll (tH ll) (tW ll) hs ->
  is_ok (DWTInverse_rev Op ll hs Lr gr0 gr1 Lc gc0 gc1 M_PER)
    (waverec_rel (invlevel2d Op (fun hh ww a b c d i j => pywt_idwt2_per Op Lr gr0 gr1 Lc gc0 gc1 hh ww a b c d i j)
                             (fun n => 2*n) (fun n => 2*n)) ll hs).
Proof. exact @waverec_2d_per. Qed.
Print Assumptions C10_multilevel_2d_per.

(* non-vacuity: a 3-level chain with an oversize lowpass (trim) and a None level, L = 4 *)
Example C10_chain_example :
  let t w := mkT 1 1 1 w (fun _ _ _ j => j) : @ten Z in
  chain1 (fun n => 1 <= n /\ 1 <= 2*n - 4 + 2) (fun n => 2*n - 4 + 2) (t 4) 4 [Some (t 4); None; Some (t 9)].
Proof. cbn. repeat split; try lia; try (left; reflexivity); try (right; reflexivity). Qed.

(* what the code computes in periodization for EVERY size (characterisation, also inside the known finding) *)
Theorem C10_level_per_row_code :
  forall (R:Type) (Op:Ops R) (Rth:RingOk Op) (lo hi:@ten R) (L:Z) (g0 g1:Z->R),
  same_shape lo hi = true -> 2 <= L -> L mod 2 = 0 -> 1 <= tH lo -> 1 <= tW lo -> L/2 - 1 < 2 * tW lo ->
  is_ok (sfb1d Op lo hi L g0 g1 M_PER 3)
    (sfb_row_spec lo (2 * tW lo)
       (fun n c i m => syn_per_code Op L (tW lo) g0 g1 (fun k => tf lo n c i k) (fun k => tf hi n c i k) m)).
Proof. exact @sfb1d_per_row. Qed.
Print Assumptions C10_level_per_row_code.

(* the guard is necessary (known finding KF-PER-SHORT, synthesis side): n = 1, L = 6 *)
Definition klo : @ten Z := mkT 1 1 1 1 (fun _ _ _ _ => 1).
Definition khi : @ten Z := mkT 1 1 1 1 (fun _ _ _ _ => 0).
Definition kg6 : Z -> Z := fun a => a + 1.
Definition v0 (r:res (@ten Z)) : Z := match r with Ok y => tf y 0 0 0 0 | Err _ => -1 end.
Theorem C10_per_short_refuted :
  ~ (6 - 2 <= 2 * tW klo) /\
  v0 (sfb1d ZOps klo khi 6 kg6 kg6 M_PER 3) <> syn_per ZOps 6 1 kg6 kg6 (fun _ => 1) (fun _ => 0) 0.
Proof. split. vm_compute. intro H; apply H; reflexivity. vm_compute. intro H; discriminate H. Qed.
Print Assumptions C10_per_short_refuted.
Eval vm_compute in (v0 (sfb1d ZOps klo khi 6 kg6 kg6 M_PER 3), syn_per ZOps 6 1 kg6 kg6 (fun _ => 1) (fun _ => 0) 0).
