(* C02 - filter side.  Statements only. *)
From Coq Require Import String.
From PW Require Import Base.Ops Base.Sum Base.Sig Proofs.LineTheory Proofs.PywtProofs Gen.PywtTables.

(* ---- filter side: all 106 PyWavelets banks (exact dyadic taps regenerated from the installed package) ---- *)
(* l1 deviation of the reconstruction kernel from the unit impulse <= 2^-34 (dmey: 2^-7), both output parities *)
Theorem C02_pywt_kernels :
  forallb (fun b => bank_ok (if String.eqb (fst (fst (fst (fst (fst b))))) "dmey" then 7 else 34) b) pywt_banks = true.
Proof. exact all_banks_hold. Qed.
Print Assumptions C02_pywt_kernels.
(* what that deviation bounds: for ANY integer signal bounded by M the (2^260-scaled) reconstruction differs from the signal by at most residual * M *)
Theorem C02_error_bound_Z :
  forall L (d0 d1 g0 g1 X:Z->Z) ka kb i M, 0 < L -> ka <= kb ->
  (forall k, ~(ka <= k < kb) -> ~(0 <= i + (L-2) - 2*k < L)) -> (forall u, Z.abs (X u) <= M) ->
  Z.abs (synL ZOps L g0 g1 ka kb (anaL ZOps L d0 X) (anaL ZOps L d1 X) i - 2 ^ (2*KP) * X i) <= residual L d0 d1 g0 g1 (i mod 2) * M.
Proof. exact recon_error_Z. Qed.
Print Assumptions C02_error_bound_Z.

