(* C14 - separate row and column filters act on the axis they are named for. *)
From PW Require Import Base.Ops Base.Sum Base.Sig Base.Tensor Model.Dwt Spec.Line Proofs.DwtNF Proofs.C01Proofs.

(* the Function used by DWTForward is the library's functional bank with the same four filters, split into bands *)
Theorem C14_forward_is_functional :
  forall (R:Type) (Op:Ops R) (x:@ten R) Lr h0r h1r Lc h0c h1c mode,
  AFB2D_fwd Op x Lr h0r h1r Lc h0c h1c mode
  = bind (afb2d Op x Lr h0r h1r Lc h0c h1c mode) (fun y => Ok (force Op (band4 0 y), force Op (highs4 y))).
Proof. intros. unfold AFB2D_fwd, afb2d. destruct (afb1d Op x Lr h0r h1r mode 3); reflexivity. Qed.
Print Assumptions C14_forward_is_functional.
Theorem C14_inverse_is_functional :
  forall (R:Type) (Op:Ops R) (low highs:@ten R) Lr g0r g1r Lc g0c g1c mode,
  SFB2D_fwd Op low highs Lr g0r g1r Lc g0c g1c mode
  = sfb2d Op low (unbind3 0 highs) (unbind3 1 highs) (unbind3 2 highs) Lr g0r g1r Lc g0c g1c mode.
Proof. reflexivity. Qed.
Print Assumptions C14_inverse_is_functional.

(* the first pass of afb2d filters along the LAST axis (W) with the ROW pair and nothing else: its result is PyWavelets'
   1-D transform of every row with the row wavelet (C01_level_row with the row filters) *)
Theorem C14_row_pair_on_last_axis :
  forall (R:Type) (Op:Ops R) (Rth:RingOk Op) (x:@ten R) (Lr:Z) (dr0 dr1:Z->R) (mode:Z),
  2 <= Lr -> 1 <= tW x -> 1 <= tH x -> 0 < tC x -> level_ok mode Lr (tW x) -> (mode = M_REFLECT -> 2 <= tW x) ->
  is_ok (afb1d Op x Lr (rev_filt Lr dr0) (rev_filt Lr dr1) mode 3)
    (fun y => tH y = tH x /\ tW y = (tW x + Lr - 1)/2 /\
       forall n c t i k, 0 <= t < 2 -> 0 <= i < tH x -> 0 <= k < (tW x + Lr - 1)/2 ->
         tf y n (2*c + t) i k = pywt_dwt Op mode Lr (tW x) (dsel dr0 dr1 t) (fun q => tf x n c i q) k).
Proof.
  intros R Op Rth x Lr dr0 dr1 mode H1 H2 H3 H4 H5 H6.
  pose proof (afb1d_row_pywt Op Rth x Lr dr0 dr1 mode H1 H2 H3 H4 H5 H6) as H.
  destruct (afb1d Op x Lr _ _ mode 3); [|contradiction]. cbn [is_ok] in *. tauto.
Qed.
Print Assumptions C14_row_pair_on_last_axis.
