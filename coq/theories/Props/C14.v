(* C14 - separate row and column filters act on the axis they are named for. *)
From PW Require Import Base.Ops Base.Sum Base.Sig Base.Tensor Model.Dwt Spec.Line Proofs.DwtNF Proofs.SfbNF Proofs.C01Proofs Proofs.C01Proofs2D Proofs.C10Proofs2D.

(* the Function used by DWTForward is the library's functional bank with the same four filters, split into bands *)
Theorem C14_forward_is_functional :
  forall (R:Type) (Op:Ops R) (x:@ten R) Lr h0r h1r Lc h0c h1c mode,
  AFB2D_fwd Op x Lr h0r h1r Lc h0c h1c mode
  = bind (afb2d Op x Lr h0r h1r Lc h0c h1c mode) (fun y => Ok (force Op (band4 0 y), force Op (highs4 y))).
Proof. intros. unfold AFB2D_fwd, afb2d. destruct (afb1d Op x Lr h0r h1r mode 3); reflexivity. Qed.
Print Assumptions C14_forward_is_functional.
Theorem C14_inverse_is_functional :
  forall (R:Type) (Op:Ops R) (low highs:@ten R) Lr g0r g1r Lc g0c g1c mode,
  SFB2D_fwd Op low highs Lr g0r g1r Lc g0c g1c mode
  = sfb2d Op low (unbind3 0 highs) (unbind3 1 highs) (unbind3 2 highs) Lr g0r g1r Lc g0c g1c mode.
Proof. reflexivity. Qed.
Print Assumptions C14_inverse_is_functional.

(* the first pass of afb2d filters along the LAST axis (W) with the ROW pair and nothing else: its result is PyWavelets'
   1-D transform of every row with the row wavelet (C01_level_row with the row filters) *)
Theorem C14_row_pair_on_last_axis :
  forall (R:Type) (Op:Ops R) (Rth:RingOk Op) (x:@ten R) (Lr:Z) (dr0 dr1:Z->R) (mode:Z),
  2 <= Lr -> 1 <= tW x -> 1 <= tH x -> 0 < tC x -> level_ok mode Lr (tW x) -> (mode = M_REFLECT -> 2 <= tW x) ->
  is_ok (afb1d Op x Lr (rev_filt Lr dr0) (rev_filt Lr dr1) mode 3)
    (fun y => tH y = tH x /\ tW y = (tW x + Lr - 1)/2 /\
       forall n c t i k, 0 <= t < 2 -> 0 <= i < tH x -> 0 <= k < (tW x + Lr - 1)/2 ->
         tf y n (2*c + t) i k = pywt_dwt Op mode Lr (tW x) (dsel dr0 dr1 t) (fun q => tf x n c i q) k).
Proof.
  intros R Op Rth x Lr dr0 dr1 mode H1 H2 H3 H4 H5 H6.
  pose proof (afb1d_row_pywt Op Rth x Lr dr0 dr1 mode H1 H2 H3 H4 H5 H6) as H.
  destruct (afb1d Op x Lr _ _ mode 3); [|contradiction]. cbn [is_ok] in *. tauto.
Qed.
Print Assumptions C14_row_pair_on_last_axis.

(* the whole level: the COLUMN pair (dc0, dc1) acts along the rows axis H and the ROW pair (dr0, dr1) along the last axis W -
   PyWavelets' dwt2 with one wavelet per axis; different lengths Lr, Lc are allowed (the output is ((H+Lc-1)/2, (W+Lr-1)/2)) *)
Theorem C14_forward_per_axis :
  forall (R:Type) (Op:Ops R) (Rth:RingOk Op) (x:@ten R) Lr dr0 dr1 Lc dc0 dc1 mode,
  2 <= Lr -> 2 <= Lc -> 1 <= tW x -> 1 <= tH x -> 0 < tC x ->
  level_ok mode Lr (tW x) -> level_ok mode Lc (tH x) -> (mode = M_REFLECT -> 2 <= tW x /\ 2 <= tH x) ->
  is_ok (AFB2D_fwd Op x Lr (rev_filt Lr dr0) (rev_filt Lr dr1) Lc (rev_filt Lc dc0) (rev_filt Lc dc1) mode)
    (fun r => let '(low, highs) := r in
       tH low = (tH x + Lc - 1)/2 /\ tW low = (tW x + Lr - 1)/2 /\
       forall n c i j, 0 <= c < tC x -> 0 <= i < (tH x + Lc - 1)/2 -> 0 <= j < (tW x + Lr - 1)/2 ->
         tf low n c i j = pywt_dwt2 Op mode Lr dr0 Lc dc0 (tH x) (tW x) (fun p q => tf x n c p q) i j).
Proof.
  intros R Op Rth x Lr dr0 dr1 Lc dc0 dc1 mode H1 H2 H3 H4 H5 H6 H7 H8.
  pose proof (AFB2D_pywt Op Rth x Lr dr0 dr1 Lc dc0 dc1 mode H1 H2 H3 H4 H5 H6 H7 H8) as H.
  destruct (AFB2D_fwd Op x Lr _ _ Lc _ _ mode) as [[low highs]|]; [|contradiction]. cbn [is_ok] in *.
  destruct H as (A1 & A2 & A3 & A4 & A5 & A6 & A7 & A8 & A9). repeat split; auto.
  intros n c i j Hc Hi Hj. apply (A9 n c i j Hc Hi Hj).
Qed.
Print Assumptions C14_forward_per_axis.
Theorem C14_inverse_per_axis :
  forall (R:Type) (Op:Ops R) (Rth:RingOk Op) (low highs:@ten R) Lr gr0 gr1 Lc gc0 gc1 mode, nonper_mode mode ->
  tN highs = tN low -> tC highs = 3 * tC low -> tH highs = tH low -> tW highs = tW low ->
  2 <= Lr -> 2 <= Lc -> 0 < tC low -> 1 <= tW low -> 1 <= tH low -> 1 <= 2 * tH low - Lc + 2 -> 1 <= 2 * tW low - Lr + 2 ->
  is_ok (SFB2D_fwd Op low highs Lr gr0 gr1 Lc gc0 gc1 mode)
    (fun y => tH y = 2 * tH low - Lc + 2 /\ tW y = 2 * tW low - Lr + 2 /\
       forall n c i j, 0 <= c < tC low -> 0 <= i < 2 * tH low - Lc + 2 -> 0 <= j < 2 * tW low - Lr + 2 ->
         tf y n c i j = pywt_idwt2 Op Lr gr0 gr1 Lc gc0 gc1 (tH low) (tW low)
                          (fun p q => tf low n c p q) (fun p q => tf highs n (3*c) p q)
                          (fun p q => tf highs n (3*c+1) p q) (fun p q => tf highs n (3*c+2) p q) i j).
Proof.
  intros R Op Rth low highs Lr gr0 gr1 Lc gc0 gc1 mode Hm E1 E2 E3 E4 H1 H2 H3 H4 H5 H6 H7.
  pose proof (SFB2D_pywt Op Rth low highs Lr gr0 gr1 Lc gc0 gc1 mode Hm E1 E2 E3 E4 H1 H2 H3 H4 H5 H6 H7) as H.
  destruct (SFB2D_fwd Op low highs Lr gr0 gr1 Lc gc0 gc1 mode) as [y|]; [|contradiction]. cbn [is_ok] in *. tauto.
Qed.
Print Assumptions C14_inverse_per_axis.
