(* C01 - DWT analysis equals PyWavelets.  Statements only; proofs are in Proofs/. *)
From PW Require Import Base.Ops Base.Sum Base.Sig Base.Tensor Model.Dwt Spec.Line Proofs.DwtNF Proofs.C01Proofs Proofs.C01Proofs2D Proofs.Per2D Proofs.C02Proofs Proofs.C02ProofsPer Proofs.C02Proofs2D Proofs.MultiSpec.

(* One level, filtering along the last axis (the whole of the 1-D transform's level, and the row pass of the 2-D one),
   modes zero / symmetric / periodic for every length >= 1, reflect whenever the code does not raise:
   output channel 2c+t of the grouped convolution is PyWavelets' band t (0 = approximation, 1 = detail) of channel c. *)
Theorem C01_level_row :
  forall (R:Type) (Op:Ops R) (Rth:RingOk Op) (x:@ten R) (L:Z) (d0 d1:Z->R) (mode:Z),
  2 <= L -> 1 <= tW x -> 1 <= tH x -> 0 < tC x ->
  level_ok mode L (tW x) -> (mode = M_REFLECT -> 2 <= tW x) ->
  is_ok (afb1d Op x L (rev_filt L d0) (rev_filt L d1) mode 3)
    (fun y => tN y = tN x /\ tC y = 2 * tC x /\ tH y = tH x /\ tW y = (tW x + L - 1)/2 /\
       forall n c t i k, 0 <= t < 2 -> 0 <= i < tH x -> 0 <= k < (tW x + L - 1)/2 ->
         tf y n (2*c + t) i k = pywt_dwt Op mode L (tW x) (dsel d0 d1 t) (fun q => tf x n c i q) k).
Proof. exact @afb1d_row_pywt. Qed.
Print Assumptions C01_level_row.

(* Periodization, guard: the even-extended length is at least the filter length. *)
Theorem C01_level_row_per :
  forall (R:Type) (Op:Ops R) (Rth:RingOk Op) (x:@ten R) (L:Z) (d0 d1:Z->R),
  2 <= L -> L mod 2 = 0 -> L <= even_len (tW x) -> 1 <= tW x -> 1 <= tH x -> 0 < tC x ->
  is_ok (afb1d Op x L (rev_filt L d0) (rev_filt L d1) M_PER 3)
    (fun y => tN y = tN x /\ tC y = 2 * tC x /\ tH y = tH x /\ tW y = even_len (tW x) / 2 /\
       forall n c t i k, 0 <= t < 2 -> 0 <= i < tH x -> 0 <= k < even_len (tW x) / 2 ->
         tf y n (2*c + t) i k = pywt_dwt_per Op L (tW x) (dsel d0 d1 t) (fun q => tf x n c i q) k).
Proof. exact @afb1d_row_pywt_per. Qed.
Print Assumptions C01_level_row_per.

(* the column pass (filtering along the rows axis H), same statement *)
Theorem C01_level_col :
  forall (R:Type) (Op:Ops R) (Rth:RingOk Op) (x:@ten R) (L:Z) (d0 d1:Z->R) (mode:Z),
  2 <= L -> 1 <= tW x -> 1 <= tH x -> 0 < tC x ->
  level_ok mode L (tH x) -> (mode = M_REFLECT -> 2 <= tH x) ->
  is_ok (afb1d Op x L (rev_filt L d0) (rev_filt L d1) mode 2)
    (fun y => tN y = tN x /\ tC y = 2 * tC x /\ tW y = tW x /\ tH y = (tH x + L - 1)/2 /\
       forall n c t k j, 0 <= t < 2 -> 0 <= j < tW x -> 0 <= k < (tH x + L - 1)/2 ->
         tf y n (2*c + t) k j = pywt_dwt Op mode L (tH x) (dsel d0 d1 t) (fun q => tf x n c q j) k).
Proof. exact @afb1d_col_pywt. Qed.
Print Assumptions C01_level_col.

(* one 2-D level (AFB2D.forward): for every image size, filter lengths, filters and the four non-periodization modes
   (reflect whenever the code does not raise) the result is PyWavelets' dwt2 applied axis by axis - the ROW pair along the
   last axis, the COLUMN pair along the rows axis - with bands (ll | lh, hl, hh) = (cA | cH, cV, cD): band b = 2t+s,
   t = row band, s = column band *)
Theorem C01_level_2d :
  forall (R:Type) (Op:Ops R) (Rth:RingOk Op) (x:@ten R) Lr dr0 dr1 Lc dc0 dc1 mode,
  2 <= Lr -> 2 <= Lc -> 1 <= tW x -> 1 <= tH x -> 0 < tC x ->
  level_ok mode Lr (tW x) -> level_ok mode Lc (tH x) -> (mode = M_REFLECT -> 2 <= tW x /\ 2 <= tH x) ->
  is_ok (AFB2D_fwd Op x Lr (rev_filt Lr dr0) (rev_filt Lr dr1) Lc (rev_filt Lc dc0) (rev_filt Lc dc1) mode)
    (fun r => let '(low, highs) := r in
       let H' := (tH x + Lc - 1)/2 in let W' := (tW x + Lr - 1)/2 in
       tN low = tN x /\ tC low = tC x /\ tH low = H' /\ tW low = W' /\
       tN highs = tN x /\ tC highs = 3 * tC x /\ tH highs = H' /\ tW highs = W' /\
       forall n c i j, 0 <= c < tC x -> 0 <= i < H' -> 0 <= j < W' ->
         tf low n c i j = pywt_dwt2 Op mode Lr dr0 Lc dc0 (tH x) (tW x) (fun p q => tf x n c p q) i j /\
         forall b, 1 <= b < 4 ->
           tf highs n (3*c + (b-1)) i j
           = pywt_dwt2 Op mode Lr (dsel dr0 dr1 (b/2)) Lc (dsel dc0 dc1 (b mod 2)) (tH x) (tW x) (fun p q => tf x n c p q) i j).
Proof. exact @AFB2D_pywt. Qed.
Print Assumptions C01_level_2d.

(* the same in periodization mode (odd sizes: duplicated last sample), under the guard filter length <= even length of each axis *)
Theorem C01_level_2d_per :
  forall (R:Type) (Op:Ops R) (Rth:RingOk Op) (x:@ten R) Lr dr0 dr1 Lc dc0 dc1,
  2 <= Lr -> Lr mod 2 = 0 -> Lr <= even_len (tW x) -> 2 <= Lc -> Lc mod 2 = 0 -> Lc <= even_len (tH x) ->
  1 <= tW x -> 1 <= tH x -> 0 < tC x ->
  is_ok (AFB2D_fwd Op x Lr (rev_filt Lr dr0) (rev_filt Lr dr1) Lc (rev_filt Lc dc0) (rev_filt Lc dc1) M_PER)
    (fun r => let '(low, highs) := r in
       let H' := even_len (tH x) / 2 in let W' := even_len (tW x) / 2 in
       tN low = tN x /\ tC low = tC x /\ tH low = H' /\ tW low = W' /\
       tN highs = tN x /\ tC highs = 3 * tC x /\ tH highs = H' /\ tW highs = W' /\
       forall n c i j, 0 <= c < tC x -> 0 <= i < H' -> 0 <= j < W' ->
         tf low n c i j = pywt_dwt2_per Op Lr dr0 Lc dc0 (tH x) (tW x) (fun p q => tf x n c p q) i j /\
         forall b, 1 <= b < 4 ->
           tf highs n (3*c + (b-1)) i j
           = pywt_dwt2_per Op Lr (dsel dr0 dr1 (b/2)) Lc (dsel dc0 dc1 (b mod 2)) (tH x) (tW x) (fun p q => tf x n c p q) i j).
Proof. exact @AFB2D_pywt_per. Qed.
Print Assumptions C01_level_2d_per.

(* ---- every J: the level loops return wavedec / wavedec2 ----
   wavedec_rel lev J x yl yh: yh has J entries, FINEST LEVEL FIRST; entry 1 and an approximation a are the one-level transform
   `lev` of x, the rest is the (J-1)-level decomposition of a, and yl is the last approximation.
   level1d / level2d (Proofs/MultiSpec.v) = shapes + PyWavelets' closed form of one level (pywt_dwt, pywt_dwt2). *)
Theorem C01_multilevel_1d :
  forall (R:Type) (Op:Ops R) (Rth:RingOk Op) (J:nat) (x:@ten R) L d0 d1 mode,
  2 <= L -> 1 <= tH x -> 0 < tC x -> 1 <= tW x -> levels_ok J mode L (tW x) ->
  is_ok (DWT1DForward Op J x L (rev_filt L d0) (rev_filt L d1) mode)
    (fun r => wavedec_rel (level1d Op mode L d0 d1) J x (fst r) (snd r) /\ length (snd r) = J).
Proof. intros R Op Rth J. exact (wavedec_1d Op Rth J). Qed.
Print Assumptions C01_multilevel_1d.
Theorem C01_multilevel_1d_per :
  forall (R:Type) (Op:Ops R) (Rth:RingOk Op) (J:nat) (x:@ten R) L d0 d1,
  2 <= L -> L mod 2 = 0 -> 1 <= tH x -> 0 < tC x -> 1 <= tW x -> levels_ok_per J L (tW x) ->
  is_ok (DWT1DForward Op J x L (rev_filt L d0) (rev_filt L d1) M_PER)
    (fun r => wavedec_rel (level1d_per Op L d0 d1) J x (fst r) (snd r) /\ length (snd r) = J).
Proof. intros R Op Rth J. exact (wavedec_1d_per Op Rth J). Qed.
Print Assumptions C01_multilevel_1d_per.
Theorem C01_multilevel_2d :
  forall (R:Type) (Op:Ops R) (Rth:RingOk Op) (J:nat) (x:@ten R) Lr dr0 dr1 Lc dc0 dc1 mode,
  2 <= Lr -> 2 <= Lc -> 0 < tC x -> 1 <= tW x -> 1 <= tH x -> levels_ok2 J mode Lr Lc (tH x) (tW x) ->
  is_ok (DWTForward Op J x Lr (rev_filt Lr dr0) (rev_filt Lr dr1) Lc (rev_filt Lc dc0) (rev_filt Lc dc1) mode)
    (fun r => wavedec_rel (level2d Op mode Lr dr0 dr1 Lc dc0 dc1) J x (fst r) (snd r) /\ length (snd r) = J).
Proof. intros R Op Rth J. exact (wavedec_2d Op Rth J). Qed.
Print Assumptions C01_multilevel_2d.
Theorem C01_multilevel_2d_per :
  forall (R:Type) (Op:Ops R) (Rth:RingOk Op) (J:nat) (x:@ten R) Lr dr0 dr1 Lc dc0 dc1,
  2 <= Lr -> Lr mod 2 = 0 -> 2 <= Lc -> Lc mod 2 = 0 -> 0 < tC x -> 1 <= tW x -> 1 <= tH x -> levels_ok2_per J Lr Lc (tH x) (tW x) ->
  is_ok (DWTForward Op J x Lr (rev_filt Lr dr0) (rev_filt Lr dr1) Lc (rev_filt Lc dc0) (rev_filt Lc dc1) M_PER)
    (fun r => wavedec_rel (level2d_per Op Lr dr0 dr1 Lc dc0 dc1) J x (fst r) (snd r) /\ length (snd r) = J).
Proof. intros R Op Rth J. exact (wavedec_2d_per Op Rth J). Qed.
Print Assumptions C01_multilevel_2d_per.

(* The guard is necessary: below the filter length the code (single fold) differs from PyWavelets.
   Witness: length 2, L = 4, dec = (1,2,3,4): the model (which the correspondence check ties to the code)
   returns 2 where the closed form gives 6 at k = 0.  This is known finding KF-PER-SHORT. *)
Definition kf_x : @ten Z := mkT 1 1 1 2 (fun _ _ _ j => if j =? 1 then 1 else 0).
Definition kf_dec : Z -> Z := fun m => m + 1.
Definition val0 (r:res (@ten Z)) : Z := match r with Ok y => tf y 0 0 0 0 | Err _ => -1 end.
Theorem C01_per_short_refuted :
  4 > even_len (tW kf_x) /\
  val0 (afb1d ZOps kf_x 4 (rev_filt 4 kf_dec) (rev_filt 4 kf_dec) M_PER 3)
    <> pywt_dwt_per ZOps 4 (tW kf_x) kf_dec (fun q => tf kf_x 0 0 0 q) 0.
Proof. vm_compute. split; [reflexivity | intro H; discriminate H]. Qed.
Print Assumptions C01_per_short_refuted.

(* non-vacuity: a configuration meeting the hypotheses of C01_level_row in reflect mode *)
Example C01_hyps_satisfiable : level_ok M_REFLECT 4 5 /\ level_ok M_ZERO 6 2 /\ 4 <= even_len 3.
Proof. split; [|split].
  - right; right; right. vm_compute. repeat split; intro H; discriminate H.
  - left; reflexivity.
  - vm_compute. intro H; discriminate H. Qed.
Eval vm_compute in (val0 (afb1d ZOps kf_x 4 (rev_filt 4 kf_dec) (rev_filt 4 kf_dec) M_PER 3),
                    pywt_dwt_per ZOps 4 (tW kf_x) kf_dec (fun q => tf kf_x 0 0 0 q) 0).
