(* C06 - DTCWT back-propagation is the adjoint: the pieces the hand-written backward passes rely on. *)
From PW Require Import Base.Ops Base.Sum Base.Sig Base.Tensor Model.Dwt Model.Dtcwt Spec.Line Spec.DtcwtRef Proofs.QuadProofs Proofs.SymExt
  Proofs.DwtNF Proofs.DtcwtNF Proofs.QshiftAdj Proofs.QshiftTensor Proofs.TablesProofs.

(* FWD_J1.backward / INV_J1.backward reuse colfilter with the SAME filter: right when the filter is symmetric and odd.
   In a general commutative ring the factor 2 cannot be cancelled; over Z, Q, R it can. *)
Theorem C06_colfilter_selfadjoint :
  forall (R:Type) (Op:Ops R) (Rth:RingOk Op) L r (h x g:Z->R), 0 < r -> L mod 2 = 1 -> 1 <= L -> Symmetric L h ->
  rmul Op (radd Op (r1 Op) (r1 Op)) (dot Op r (cfline Op L r h x) g)
  = rmul Op (radd Op (r1 Op) (r1 Op)) (dot Op r x (cfline Op L r h g)).
Proof. intros R Op Rth L r h x g H1 H2 H3 H4. exact (cf_selfadjoint2 Op Rth L r h x g H1 H2 H3 H4). Qed.
Print Assumptions C06_colfilter_selfadjoint.
Corollary C06_colfilter_selfadjoint_Z :
  forall L r (h x g:Z->Z), 0 < r -> L mod 2 = 1 -> 1 <= L -> Symmetric L h ->
  dot ZOps r (cfline ZOps L r h x) g = dot ZOps r x (cfline ZOps L r h g).
Proof. intros L r h x g H1 H2 H3 H4. pose proof (cf_selfadjoint2 ZOps ZOk L r h x g H1 H2 H3 H4) as H. cbn [rmul radd r1 ZOps] in H. lia. Qed.
Print Assumptions C06_colfilter_selfadjoint_Z.

(* q2c and c2q are mutually adjoint, quad by quad *)
Theorem C06_q2c_c2q_adjoint :
  forall (R:Type) (Op:Ops R) (Rth:RingOk Op) (s:R) (y w1r w1i w2r w2i:@ten R) n c i j,
  let '((z1r, z1i), (z2r, z2i)) := q2c Op s y in
  let q := c2q Op s w1r w1i w2r w2i in
  radd Op (radd Op (radd Op (rmul Op (tf z1r n c i j) (tf w1r n c i j)) (rmul Op (tf z1i n c i j) (tf w1i n c i j)))
                   (rmul Op (tf z2r n c i j) (tf w2r n c i j))) (rmul Op (tf z2i n c i j) (tf w2i n c i j))
  = radd Op (radd Op (radd Op (rmul Op (tf y n c (2*i) (2*j)) (tf q n c (2*i) (2*j))) (rmul Op (tf y n c (2*i) (2*j+1)) (tf q n c (2*i) (2*j+1))))
                     (rmul Op (tf y n c (2*i+1) (2*j)) (tf q n c (2*i+1) (2*j)))) (rmul Op (tf y n c (2*i+1) (2*j+1)) (tf q n c (2*i+1) (2*j+1))).
Proof. intros R Op Rth s y w1r w1i w2r w2i n c i j. exact (q2c_c2q_adjoint Op Rth s y w1r w1i w2r w2i n c i j). Qed.
Print Assumptions C06_q2c_c2q_adjoint.

(* ---- levels >= 2 ---- *)
(* FWD_J2PLUS.backward / INV_J2PLUS.backward reuse colifilt / coldfilt with the a and b filters EXCHANGED: right when the
   b filter is the a filter reversed.  Every even filter length m, every column length r = 0 mod 4 (also shorter than the
   filter), both sampling layouts (pos), any signal x and cotangent g. *)
Theorem C06_coldfilt_colifilt_adjoint :
  forall (R:Type) (Op:Ops R) (Rth:RingOk Op) m r (ha hb x g:Z->R) (pos:bool),
  2 <= m -> m mod 2 = 0 -> 0 < r -> r mod 4 = 0 -> (forall j, 0 <= j < m -> hb j = ha (m-1-j)) ->
  rmul Op (radd Op (r1 Op) (r1 Op)) (dot Op (r/2) (ref_coldfilt Op m r ha hb x pos) g)
  = rmul Op (radd Op (r1 Op) (r1 Op)) (dot Op r x (ref_colifilt Op m (r/2) hb ha g pos)).
Proof. intros R Op Rth m r ha hb x g pos H1 H2 H3 H4 H5. exact (coldfilt_colifilt_adjoint2 Op Rth m r ha hb x g pos H1 H2 H3 H4 H5). Qed.
Print Assumptions C06_coldfilt_colifilt_adjoint.
Corollary C06_coldfilt_colifilt_adjoint_Z :
  forall m r (ha hb x g:Z->Z) (pos:bool),
  2 <= m -> m mod 2 = 0 -> 0 < r -> r mod 4 = 0 -> (forall j, 0 <= j < m -> hb j = ha (m-1-j)) ->
  dot ZOps (r/2) (ref_coldfilt ZOps m r ha hb x pos) g = dot ZOps r x (ref_colifilt ZOps m (r/2) hb ha g pos).
Proof. intros m r ha hb x g pos H1 H2 H3 H4 H5. pose proof (coldfilt_colifilt_adjoint2 ZOps ZOk m r ha hb x g pos H1 H2 H3 H4 H5) as H. cbn [rmul radd r1 ZOps] in H. lia. Qed.
Print Assumptions C06_coldfilt_colifilt_adjoint_Z.

(* on the model of the code (column pass; the flag hp is the code's `highpass' argument) *)
Theorem C06_dfilt_ifilt_adjoint_col :
  forall (R:Type) (Op:Ops R) (Rth:RingOk Op) (x G:@ten R) L (HA HB:Z->R) (hp:bool),
  2 <= L -> L mod 2 = 0 -> 4 <= tH x -> tH x mod 4 = 0 -> 1 <= tW x -> 0 < tC x ->
  tN G = tN x -> tC G = tC x -> tH G = tH x / 2 -> tW G = tW x ->
  (forall j, 0 <= j < L -> HB j = HA (L-1-j)) ->
  is_ok (dfilt Op 2 x L (rev_filt L HA) (rev_filt L HB) hp) (fun y =>
  is_ok (ifilt Op 2 G L (rev_filt L HB) (rev_filt L HA) hp) (fun dx =>
    tH y = tH G /\ tH dx = tH x /\
    forall n c j, 0 <= c < tC x -> 0 <= j < tW x ->
      let two := radd Op (r1 Op) (r1 Op) in
      rmul Op two (dot Op (tH G) (fun k => tf y n c k j) (fun k => tf G n c k j))
      = rmul Op two (dot Op (tH x) (fun i => tf x n c i j) (fun i => tf dx n c i j)))).
Proof. exact @dfilt_ifilt_adjoint_col. Qed.
Print Assumptions C06_dfilt_ifilt_adjoint_col.

(* the hypothesis holds, exactly, for every shipped q-shift table (h0a/h0b, h1a/h1b, g0a/g0b, g1a/g1b, h2a/h2b, g2a/g2b),
   tables regenerated from the .npz files on every run *)
Theorem C06_tables_revpair : qshift_revpair = true.
Proof. exact (proj1 (proj2 (proj2 (proj2 (proj2 tables_ok))))). Qed.
Print Assumptions C06_tables_revpair.

