(* C06 - DTCWT back-propagation is the adjoint: the pieces the hand-written backward passes rely on. *)
From PW Require Import Base.Ops Base.Sum Base.Sig Base.Tensor Model.Dwt Model.Dtcwt Spec.Line Spec.DtcwtRef Proofs.QuadProofs Proofs.SymExt
  Proofs.DwtNF Proofs.DtcwtNF Proofs.QshiftAdj Proofs.QshiftTensor Proofs.TablesProofs Proofs.DtcwtAdj2D Proofs.DtcwtAdj1.

(* FWD_J1.backward / INV_J1.backward reuse colfilter with the SAME filter: right when the filter is symmetric and odd.
   In a general commutative ring the factor 2 cannot be cancelled; over Z, Q, R it can. *)
Theorem C06_colfilter_selfadjoint :
  forall (R:Type) (Op:Ops R) (Rth:RingOk Op) L r (h x g:Z->R), 0 < r -> L mod 2 = 1 -> 1 <= L -> Symmetric L h ->
  rmul Op (radd Op (r1 Op) (r1 Op)) (dot Op r (cfline Op L r h x) g)
  = rmul Op (radd Op (r1 Op) (r1 Op)) (dot Op r x (cfline Op L r h g)).
Proof. intros R Op Rth L r h x g H1 H2 H3 H4. exact (cf_selfadjoint2 Op Rth L r h x g H1 H2 H3 H4). Qed.
Print Assumptions C06_colfilter_selfadjoint.
Corollary C06_colfilter_selfadjoint_Z :
  forall L r (h x g:Z->Z), 0 < r -> L mod 2 = 1 -> 1 <= L -> Symmetric L h ->
  dot ZOps r (cfline ZOps L r h x) g = dot ZOps r x (cfline ZOps L r h g).
Proof. intros L r h x g H1 H2 H3 H4. pose proof (cf_selfadjoint2 ZOps ZOk L r h x g H1 H2 H3 H4) as H. cbn [rmul radd r1 ZOps] in H. lia. Qed.
Print Assumptions C06_colfilter_selfadjoint_Z.

(* q2c and c2q are mutually adjoint, quad by quad *)
Theorem C06_q2c_c2q_adjoint :
  forall (R:Type) (Op:Ops R) (Rth:RingOk Op) (s:R) (y w1r w1i w2r w2i:@ten R) n c i j,
  let '((z1r, z1i), (z2r, z2i)) := q2c Op s y in
  let q := c2q Op s w1r w1i w2r w2i in
  radd Op (radd Op (radd Op (rmul Op (tf z1r n c i j) (tf w1r n c i j)) (rmul Op (tf z1i n c i j) (tf w1i n c i j)))
                   (rmul Op (tf z2r n c i j) (tf w2r n c i j))) (rmul Op (tf z2i n c i j) (tf w2i n c i j))
  = radd Op (radd Op (radd Op (rmul Op (tf y n c (2*i) (2*j)) (tf q n c (2*i) (2*j))) (rmul Op (tf y n c (2*i) (2*j+1)) (tf q n c (2*i) (2*j+1))))
                     (rmul Op (tf y n c (2*i+1) (2*j)) (tf q n c (2*i+1) (2*j)))) (rmul Op (tf y n c (2*i+1) (2*j+1)) (tf q n c (2*i+1) (2*j+1))).
Proof. intros R Op Rth s y w1r w1i w2r w2i n c i j. exact (q2c_c2q_adjoint Op Rth s y w1r w1i w2r w2i n c i j). Qed.
Print Assumptions C06_q2c_c2q_adjoint.

(* ---- levels >= 2 ---- *)
(* FWD_J2PLUS.backward / INV_J2PLUS.backward reuse colifilt / coldfilt with the a and b filters EXCHANGED: right when the
   b filter is the a filter reversed.  Every even filter length m, every column length r = 0 mod 4 (also shorter than the
   filter), both sampling layouts (pos), any signal x and cotangent g. *)
Theorem C06_coldfilt_colifilt_adjoint :
  forall (R:Type) (Op:Ops R) (Rth:RingOk Op) m r (ha hb x g:Z->R) (pos:bool),
  2 <= m -> m mod 2 = 0 -> 0 < r -> r mod 4 = 0 -> (forall j, 0 <= j < m -> hb j = ha (m-1-j)) ->
  rmul Op (radd Op (r1 Op) (r1 Op)) (dot Op (r/2) (ref_coldfilt Op m r ha hb x pos) g)
  = rmul Op (radd Op (r1 Op) (r1 Op)) (dot Op r x (ref_colifilt Op m (r/2) hb ha g pos)).
Proof. intros R Op Rth m r ha hb x g pos H1 H2 H3 H4 H5. exact (coldfilt_colifilt_adjoint2 Op Rth m r ha hb x g pos H1 H2 H3 H4 H5). Qed.
Print Assumptions C06_coldfilt_colifilt_adjoint.
Corollary C06_coldfilt_colifilt_adjoint_Z :
  forall m r (ha hb x g:Z->Z) (pos:bool),
  2 <= m -> m mod 2 = 0 -> 0 < r -> r mod 4 = 0 -> (forall j, 0 <= j < m -> hb j = ha (m-1-j)) ->
  dot ZOps (r/2) (ref_coldfilt ZOps m r ha hb x pos) g = dot ZOps r x (ref_colifilt ZOps m (r/2) hb ha g pos).
Proof. intros m r ha hb x g pos H1 H2 H3 H4 H5. pose proof (coldfilt_colifilt_adjoint2 ZOps ZOk m r ha hb x g pos H1 H2 H3 H4 H5) as H. cbn [rmul radd r1 ZOps] in H. lia. Qed.
Print Assumptions C06_coldfilt_colifilt_adjoint_Z.

(* on the model of the code (column pass; the flag hp is the code's `highpass' argument) *)
Theorem C06_dfilt_ifilt_adjoint_col :
  forall (R:Type) (Op:Ops R) (Rth:RingOk Op) (x G:@ten R) L (HA HB:Z->R) (hp:bool),
  2 <= L -> L mod 2 = 0 -> 4 <= tH x -> tH x mod 4 = 0 -> 1 <= tW x -> 0 < tC x ->
  tN G = tN x -> tC G = tC x -> tH G = tH x / 2 -> tW G = tW x ->
  (forall j, 0 <= j < L -> HB j = HA (L-1-j)) ->
  is_ok (dfilt Op 2 x L (rev_filt L HA) (rev_filt L HB) hp) (fun y =>
  is_ok (ifilt Op 2 G L (rev_filt L HB) (rev_filt L HA) hp) (fun dx =>
    tH y = tH G /\ tH dx = tH x /\
    forall n c j, 0 <= c < tC x -> 0 <= j < tW x ->
      let two := radd Op (r1 Op) (r1 Op) in
      rmul Op two (dot Op (tH G) (fun k => tf y n c k j) (fun k => tf G n c k j))
      = rmul Op two (dot Op (tH x) (fun i => tf x n c i j) (fun i => tf dx n c i j)))).
Proof. exact @dfilt_ifilt_adjoint_col. Qed.
Print Assumptions C06_dfilt_ifilt_adjoint_col.

(* the hypothesis holds, exactly, for every shipped q-shift table (h0a/h0b, h1a/h1b, g0a/g0b, g1a/g1b, h2a/h2b, g2a/g2b),
   tables regenerated from the .npz files on every run *)
Theorem C06_tables_revpair : qshift_revpair = true.
Proof. exact (proj1 (proj2 (proj2 (proj2 (proj2 tables_ok))))). Qed.
Print Assumptions C06_tables_revpair.

(* ---- whole levels, 2-D, on the model of the code: the backward passes of the four Functions ----
   dot2 h w A B n c = sum over the h x w window of A[n,c,.,.] * B[n,c,.,.];  shaped x h w g: g has the batch/channel shape of x and
   spatial shape h x w.  Over any commutative ring in which 2 can be cancelled (Z, Q, R ...). *)
(* FWD_J2PLUS.backward = inv_j2plus with the a and b filters exchanged is the adjoint of fwd_j2plus, for every input x and every
   cotangent (lowpass gll and the 12 planes); read right to left it says INV_J2PLUS.backward = fwd_j2plus with the filters exchanged
   is the adjoint of inv_j2plus (all inputs present) *)
Theorem C06_qshift_level_adjoint :
  forall (R:Type) (Op:Ops R) (Rth:RingOk Op) (s:R),
  (forall a b:R, rmul Op (radd Op (r1 Op) (r1 Op)) a = rmul Op (radd Op (r1 Op) (r1 Op)) b -> a = b) ->
  forall L (H0A H0B H1A H1B:Z->R), 2 <= L /\ L mod 2 = 0 ->
  (forall j, 0 <= j < L -> H0B j = H0A (L-1-j)) -> (forall j, 0 <= j < L -> H1B j = H1A (L-1-j)) ->
  forall (x gll g15r g15i g45r g45i g75r g75i g105r g105i g135r g135i g165r g165i:@ten R),
  4 <= tH x -> tH x mod 4 = 0 -> 4 <= tW x -> tW x mod 4 = 0 -> 0 < tC x ->
  let H2 := tH x / 2 in let W2 := tW x / 2 in let H4 := tH x / 4 in let W4 := tW x / 4 in
  shaped x H2 W2 gll ->
  shaped x H4 W4 g15r -> shaped x H4 W4 g15i -> shaped x H4 W4 g45r -> shaped x H4 W4 g45i ->
  shaped x H4 W4 g75r -> shaped x H4 W4 g75i -> shaped x H4 W4 g105r -> shaped x H4 W4 g105i ->
  shaped x H4 W4 g135r -> shaped x H4 W4 g135i -> shaped x H4 W4 g165r -> shaped x H4 W4 g165i ->
  let gp := [g15r; g15i; g45r; g45i; g75r; g75i; g105r; g105i; g135r; g135i; g165r; g165i] in
  is_ok (fwd_j2plus Op s x L (rev_filt L H0B) (rev_filt L H0A) L (rev_filt L H1B) (rev_filt L H1A) false) (fun r =>
  is_ok (inv_j2plus Op s (Some gll) gp L (rev_filt L H0A) (rev_filt L H0B) L (rev_filt L H1A) (rev_filt L H1B)) (fun dx =>
    tN dx = tN x /\ tC dx = tC x /\ tH dx = tH x /\ tW dx = tW x /\
    forall n c, 0 <= c < tC x ->
      radd Op (radd Op (radd Op (dot2 Op H2 W2 (fst r) gll n c)
        (radd Op (radd Op (radd Op (dot2 Op H4 W4 (pl Op (snd r) 0 0) g15r n c) (dot2 Op H4 W4 (pl Op (snd r) 0 1) g15i n c))
                          (dot2 Op H4 W4 (pl Op (snd r) 5 0) g165r n c)) (dot2 Op H4 W4 (pl Op (snd r) 5 1) g165i n c)))
        (radd Op (radd Op (radd Op (dot2 Op H4 W4 (pl Op (snd r) 2 0) g75r n c) (dot2 Op H4 W4 (pl Op (snd r) 2 1) g75i n c))
                          (dot2 Op H4 W4 (pl Op (snd r) 3 0) g105r n c)) (dot2 Op H4 W4 (pl Op (snd r) 3 1) g105i n c)))
        (radd Op (radd Op (radd Op (dot2 Op H4 W4 (pl Op (snd r) 1 0) g45r n c) (dot2 Op H4 W4 (pl Op (snd r) 1 1) g45i n c))
                          (dot2 Op H4 W4 (pl Op (snd r) 4 0) g135r n c)) (dot2 Op H4 W4 (pl Op (snd r) 4 1) g135i n c))
      = dot2 Op (tH x) (tW x) x dx n c)).
Proof. exact @qshift_level_adjoint. Qed.
Print Assumptions C06_qshift_level_adjoint.

(* FWD_J1.backward / INV_J1.backward: inv_j1 resp. fwd_j1 with the SAME symmetric odd filters *)
Theorem C06_level1_adjoint :
  forall (R:Type) (Op:Ops R) (Rth:RingOk Op),
  (forall a b:R, rmul Op (radd Op (r1 Op) (r1 Op)) a = rmul Op (radd Op (r1 Op) (r1 Op)) b -> a = b) ->
  forall (s:R) L0 L1 (h0 h1:Z->R), 1 <= L0 /\ L0 mod 2 = 1 -> 1 <= L1 /\ L1 mod 2 = 1 -> Symmetric L0 h0 -> Symmetric L1 h1 ->
  forall (x gll g15r g15i g45r g45i g75r g75i g105r g105i g135r g135i g165r g165i:@ten R),
  2 <= tH x -> tH x mod 2 = 0 -> 2 <= tW x -> tW x mod 2 = 0 -> 0 < tC x ->
  let H2 := tH x / 2 in let W2 := tW x / 2 in
  shaped x (tH x) (tW x) gll ->
  shaped x H2 W2 g15r -> shaped x H2 W2 g15i -> shaped x H2 W2 g45r -> shaped x H2 W2 g45i ->
  shaped x H2 W2 g75r -> shaped x H2 W2 g75i -> shaped x H2 W2 g105r -> shaped x H2 W2 g105i ->
  shaped x H2 W2 g135r -> shaped x H2 W2 g135i -> shaped x H2 W2 g165r -> shaped x H2 W2 g165i ->
  let gp := [g15r; g15i; g45r; g45i; g75r; g75i; g105r; g105i; g135r; g135i; g165r; g165i] in
  is_ok (fwd_j1 Op s x L0 h0 L1 h1 false M_SYMM) (fun r =>
  is_ok (inv_j1 Op s (Some gll) gp L0 h0 L1 h1 M_SYMM) (fun dx =>
    shaped x (tH x) (tW x) dx /\
    forall n c, 0 <= c < tC x ->
      radd Op (radd Op (radd Op (dot2 Op (tH x) (tW x) (fst r) gll n c)
        (radd Op (radd Op (radd Op (dot2 Op H2 W2 (pl Op (snd r) 0 0) g15r n c) (dot2 Op H2 W2 (pl Op (snd r) 0 1) g15i n c))
                          (dot2 Op H2 W2 (pl Op (snd r) 5 0) g165r n c)) (dot2 Op H2 W2 (pl Op (snd r) 5 1) g165i n c)))
        (radd Op (radd Op (radd Op (dot2 Op H2 W2 (pl Op (snd r) 2 0) g75r n c) (dot2 Op H2 W2 (pl Op (snd r) 2 1) g75i n c))
                          (dot2 Op H2 W2 (pl Op (snd r) 3 0) g105r n c)) (dot2 Op H2 W2 (pl Op (snd r) 3 1) g105i n c)))
        (radd Op (radd Op (radd Op (dot2 Op H2 W2 (pl Op (snd r) 1 0) g45r n c) (dot2 Op H2 W2 (pl Op (snd r) 1 1) g45i n c))
                          (dot2 Op H2 W2 (pl Op (snd r) 4 0) g135r n c)) (dot2 Op H2 W2 (pl Op (snd r) 4 1) g135i n c))
      = dot2 Op (tH x) (tW x) x dx n c)).
Proof. exact @level1_adjoint. Qed.
Print Assumptions C06_level1_adjoint.
(* the cancellation hypothesis holds over Z *)
Example C06_cancel2_Z : forall a b:Z, rmul ZOps (radd ZOps (r1 ZOps) (r1 ZOps)) a = rmul ZOps (radd ZOps (r1 ZOps) (r1 ZOps)) b -> a = b.
Proof. cbn [rmul radd r1 ZOps]. intros a b H. lia. Qed.
