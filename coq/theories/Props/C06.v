(* C06 - DTCWT back-propagation is the adjoint: the pieces the hand-written backward passes rely on. *)
From PW Require Import Base.Ops Base.Sum Base.Sig Base.Tensor Model.Dwt Model.Dtcwt Spec.Line Proofs.QuadProofs Proofs.SymExt.

(* FWD_J1.backward / INV_J1.backward reuse colfilter with the SAME filter: right when the filter is symmetric and odd.
   In a general commutative ring the factor 2 cannot be cancelled; over Z, Q, R it can. *)
Theorem C06_colfilter_selfadjoint :
  forall (R:Type) (Op:Ops R) (Rth:RingOk Op) L r (h x g:Z->R), 0 < r -> L mod 2 = 1 -> 1 <= L -> Symmetric L h ->
  rmul Op (radd Op (r1 Op) (r1 Op)) (dot Op r (cfline Op L r h x) g)
  = rmul Op (radd Op (r1 Op) (r1 Op)) (dot Op r x (cfline Op L r h g)).
Proof. intros R Op Rth L r h x g H1 H2 H3 H4. exact (cf_selfadjoint2 Op Rth L r h x g H1 H2 H3 H4). Qed.
Print Assumptions C06_colfilter_selfadjoint.
Corollary C06_colfilter_selfadjoint_Z :
  forall L r (h x g:Z->Z), 0 < r -> L mod 2 = 1 -> 1 <= L -> Symmetric L h ->
  dot ZOps r (cfline ZOps L r h x) g = dot ZOps r x (cfline ZOps L r h g).
Proof. intros L r h x g H1 H2 H3 H4. pose proof (cf_selfadjoint2 ZOps ZOk L r h x g H1 H2 H3 H4) as H. cbn [rmul radd r1 ZOps] in H. lia. Qed.
Print Assumptions C06_colfilter_selfadjoint_Z.

(* q2c and c2q are mutually adjoint, quad by quad *)
Theorem C06_q2c_c2q_adjoint :
  forall (R:Type) (Op:Ops R) (Rth:RingOk Op) (s:R) (y w1r w1i w2r w2i:@ten R) n c i j,
  let '((z1r, z1i), (z2r, z2i)) := q2c Op s y in
  let q := c2q Op s w1r w1i w2r w2i in
  radd Op (radd Op (radd Op (rmul Op (tf z1r n c i j) (tf w1r n c i j)) (rmul Op (tf z1i n c i j) (tf w1i n c i j)))
                   (rmul Op (tf z2r n c i j) (tf w2r n c i j))) (rmul Op (tf z2i n c i j) (tf w2i n c i j))
  = radd Op (radd Op (radd Op (rmul Op (tf y n c (2*i) (2*j)) (tf q n c (2*i) (2*j))) (rmul Op (tf y n c (2*i) (2*j+1)) (tf q n c (2*i) (2*j+1))))
                     (rmul Op (tf y n c (2*i+1) (2*j)) (tf q n c (2*i+1) (2*j)))) (rmul Op (tf y n c (2*i+1) (2*j+1)) (tf q n c (2*i+1) (2*j+1))).
Proof. intros R Op Rth s y w1r w1i w2r w2i n c i j. exact (q2c_c2q_adjoint Op Rth s y w1r w1i w2r w2i n c i j). Qed.
Print Assumptions C06_q2c_c2q_adjoint.
