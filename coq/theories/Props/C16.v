(* C16 - dtype preservation and float32 accuracy (PARTIAL: per-stage rounding envelope, not the composite operator's gain). *)
From Coq Require Import Reals ZArith List Bool String.
From Flocq Require Import Core.
From PW Require Import Gen.Effects Proofs.EffectsProofs Proofs.RoundProofs.

(* no tensor-creation or cast site on a forward/backward path fixes or defaults a dtype: every such site passes dtype=
   (taken from its input) or is construction-time code or one of the allow-listed unreachable guards *)
Definition dtype_sites_ok : bool :=
  forallb (fun s => let '(_, _, kind, _, _) := s in
                    if (String.eqb kind "create" || String.eqb kind "cast")%bool then site_ok s else true) effects.
Theorem C16_dtype_sites : dtype_sites_ok = true.
Proof. vm_compute. reflexivity. Qed.
Print Assumptions C16_dtype_sites.

(* binary32 (FLX, precision 24, round to nearest, any tie rule, no under/overflow): a dot product evaluated in ANY
   bracketing is within ((1+u)^depth - 1) * sum |a_i b_i| of the exact value, u = 2^-24 *)
Theorem C16_dot_any_order_float32 :
  forall (choice : Z -> bool) (t : tree),
  (Rabs (fl (rnd32 choice) t - exact t) <= gam u32 (depth t) * asum t)%R.
Proof. exact dot_any_order_float32. Qed.
Print Assumptions C16_dot_any_order_float32.

(* one linear stage: every output is such a dot product of an operator row with the input, so its error is at most
   gamma * (absolute row sum) * max|x| = gamma * gain * max|x|  -- the property's form, for a single stage *)
Theorem C16_stage_bound_partial :
  forall (choice : Z -> bool) (t : tree) (gain xmax : R), (asum t <= gain * xmax)%R ->
  (Rabs (fl (rnd32 choice) t - exact t) <= gam u32 (depth t) * (gain * xmax))%R.
Proof. intros choice t gain xmax H. apply dot_gain_bound; [apply u32_pos | apply rnd32_err | exact H]. Qed.
Print Assumptions C16_stage_bound_partial.

Theorem C16_u32 : u32 = (/ 16777216)%R.
Proof. exact u32_value. Qed.
Print Assumptions C16_u32.
