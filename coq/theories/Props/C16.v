(* C16 - dtype preservation and float32 accuracy (PARTIAL: per-stage rounding envelope, not the composite operator's gain). *)
From Coq Require Import Reals ZArith List Bool String.
From Flocq Require Import Core.
From PW Require Import Gen.Effects Proofs.EffectsProofs Proofs.RoundProofs.

(* no tensor-creation or cast site on a forward/backward path fixes or defaults a dtype: every such site passes dtype=
   (taken from its input) or is construction-time code or one of the allow-listed unreachable guards *)
Definition dtype_sites_ok : bool :=
  forallb (fun s => let '(_, _, kind, _, _) := s in
                    if (String.eqb kind "create" || String.eqb kind "cast")%bool then site_ok s else true) effects.
Theorem C16_dtype_sites : dtype_sites_ok = true.
Proof. vm_compute. reflexivity. Qed.
Print Assumptions C16_dtype_sites.

(* binary32 (FLX, precision 24, round to nearest, any tie rule, no under/overflow): a dot product evaluated in ANY
   bracketing is within ((1+u)^depth - 1) * sum |a_i b_i| of the exact value, u = 2^-24 *)
Theorem C16_dot_any_order_float32 :
  forall (choice : Z -> bool) (t : tree),
  (Rabs (fl (rnd32 choice) t - exact t) <= gam u32 (depth t) * asum t)%R.
Proof. exact dot_any_order_float32. Qed.
Print Assumptions C16_dot_any_order_float32.

(* one linear stage: every output is such a dot product of an operator row with the input, so its error is at most
   gamma * (absolute row sum) * max|x| = gamma * gain * max|x|  -- the property's form, for a single stage *)
Theorem C16_stage_bound_partial :
  forall (choice : Z -> bool) (t : tree) (gain xmax : R), (asum t <= gain * xmax)%R ->
  (Rabs (fl (rnd32 choice) t - exact t) <= gam u32 (depth t) * (gain * xmax))%R.
Proof. intros choice t gain xmax H. apply dot_gain_bound; [apply u32_pos | apply rnd32_err | exact H]. Qed.
Print Assumptions C16_stage_bound_partial.

Theorem C16_u32 : u32 = (/ 16777216)%R.
Proof. exact u32_value. Qed.
Print Assumptions C16_u32.

(* a CASCADE of linear stages (row pass, column pass, level after level), each output of each stage a dot product of fixed
   coefficients with the previous stage's COMPUTED outputs, evaluated in binary32 in any bracketing: the error of the whole
   cascade is at most ((1+u)^(d_1+..+d_K) - 1) * (g_1*..*g_K) * max|x|, g_k bounding the absolute row sums of stage k and d_k its
   summation depths.  PARTIAL with respect to the property: the product of the stage gains stands where the property has the gain
   of the composite operator (it is never smaller), and the magnitude non-linearity of the scattering layers is not a stage. *)
From PW Require Import Proofs.Cascade.
Theorem C16_cascade_bound_float32_partial :
  forall (choice : Z -> bool) (st : list stage) (x : nat -> R) (X : R),
  Forall stage_ok st -> (0 <= X)%R -> (forall j, (Rabs (x j) <= X)%R) ->
  forall i, (Rabs (run_fl (rnd32 choice) st x i - run_ex st x i) <= gam u32 (depths st) * (gains st * X))%R.
Proof. exact cascade_bound_float32. Qed.
Print Assumptions C16_cascade_bound_float32_partial.
Theorem C16_cascade_nonvacuous : Forall stage_ok (haar_stage :: haar_stage :: nil).
Proof. exact haar_stage_ok. Qed.
Print Assumptions C16_cascade_nonvacuous.
