(* C05 - DWT back-propagation is the adjoint.  Statements only. *)
From PW Require Import Base.Ops Base.Sum Base.Sig Base.Tensor Model.Dwt Spec.Line Proofs.DwtNF Proofs.LineTheory Proofs.SfbNF Proofs.C05Proofs Proofs.C05Proofs2D.

(* zero padding: <analysis x, g> = <x, transposed convolution (padding L-2) of g>, every L N n h x g *)
Theorem C05_adjoint_zero_line :
  forall (R:Type) (Op:Ops R) (Rth:RingOk Op) (L N n:Z) (h x g:Z->R), 0 <= L -> 0 <= N -> 0 <= n ->
  dot Op n (ana Op L h (zx Op N x)) g = dot Op N x (convT_line Op L n h g).
Proof. exact @adjoint_zero. Qed.
Print Assumptions C05_adjoint_zero_line.

(* the model of AFB1D: backward (synthesis bank with the registered analysis filters, then crop) is the adjoint of
   forward in zero mode, line by line; read right-to-left it is SFB1D: backward (analysis bank with the synthesis
   filters) is the adjoint of forward. *)
Theorem C05_afb_zero_row :
  forall (R:Type) (Op:Ops R) (Rth:RingOk Op) (x G0 G1:@ten R) (L:Z) (h0 h1:Z->R),
  2 <= L -> 1 <= tW x -> 1 <= tH x -> 0 < tC x ->
  same_shape G0 G1 = true -> tH G0 = tH x -> tW G0 = (tW x + L - 1)/2 ->
  is_ok (afb1d Op x L h0 h1 M_ZERO 3) (fun y =>
  is_ok (sfb1d Op G0 G1 L h0 h1 M_ZERO 3) (fun dx =>
    tW x <= tW dx <= tW x + 1 /\
    forall n c i, 0 <= i < tH x ->
      radd Op (dot Op (tW y) (fun k => tf y n (2*c) i k) (fun k => tf G0 n c i k))
              (dot Op (tW y) (fun k => tf y n (2*c+1) i k) (fun k => tf G1 n c i k))
      = dot Op (tW x) (fun q => tf x n c i q) (fun q => tf dx n c i q))).
Proof. exact @afb_zero_adjoint_row. Qed.
Print Assumptions C05_afb_zero_row.

(* periodization, even length >= filter length (the property's guard; odd or shorter: known findings): same statement *)
Theorem C05_afb_per_row :
  forall (R:Type) (Op:Ops R) (Rth:RingOk Op) (x G0 G1:@ten R) (L:Z) (h0 h1:Z->R),
  2 <= L -> L mod 2 = 0 -> tW x mod 2 = 0 -> L <= tW x -> 1 <= tH x -> 0 < tC x ->
  same_shape G0 G1 = true -> tH G0 = tH x -> tW G0 = tW x / 2 ->
  is_ok (afb1d Op x L h0 h1 M_PER 3) (fun y =>
  is_ok (sfb1d Op G0 G1 L h0 h1 M_PER 3) (fun dx =>
    tW dx = tW x /\
    forall n c i, 0 <= i < tH x ->
      radd Op (dot Op (tW y) (fun k => tf y n (2*c) i k) (fun k => tf G0 n c i k))
              (dot Op (tW y) (fun k => tf y n (2*c+1) i k) (fun k => tf G1 n c i k))
      = dot Op (tW x) (fun q => tf x n c i q) (fun q => tf dx n c i q))).
Proof. exact @afb_per_adjoint_row. Qed.
Print Assumptions C05_afb_per_row.

(* ---- two dimensions: the whole of AFB2D.backward (column synthesis of the cotangent bands, row synthesis, crop to the input size)
   is the adjoint of AFB2D.forward, for every image size, every filter lengths, every cotangent (lowpass Gl, three detail bands Gh);
   dot2 h w A B n c = sum over the window of A[n,c,.,.] * B[n,c,.,.]; read right to left it is SFB2D.backward ---- *)
Theorem C05_afb2d_zero :
  forall (R:Type) (Op:Ops R) (Rth:RingOk Op) (x Gl Gh:@ten R) Lr h0r h1r Lc h0c h1c,
  2 <= Lr -> 2 <= Lc -> 1 <= tW x -> 1 <= tH x -> 0 < tC x ->
  let H' := (tH x + Lc - 1)/2 in let W' := (tW x + Lr - 1)/2 in
  tN Gl = tN x -> tC Gl = tC x -> tH Gl = H' -> tW Gl = W' ->
  tN Gh = tN x -> tC Gh = 3 * tC x -> tH Gh = H' -> tW Gh = W' ->
  is_ok (AFB2D_fwd Op x Lr h0r h1r Lc h0c h1c M_ZERO) (fun r =>
  is_ok (AFB2D_bwd Op (tH x) (tW x) Gl Gh Lr h0r h1r Lc h0c h1c M_ZERO) (fun dx =>
    tN dx = tN x /\ tC dx = tC x /\ tH dx = tH x /\ tW dx = tW x /\
    forall n c, 0 <= c < tC x ->
      radd Op (radd Op (radd Op (dot2 Op H' W' (fst r) Gl n c) (dot2 Op H' W' (unbind3 0 (snd r)) (unbind3 0 Gh) n c))
                       (dot2 Op H' W' (unbind3 1 (snd r)) (unbind3 1 Gh) n c)) (dot2 Op H' W' (unbind3 2 (snd r)) (unbind3 2 Gh) n c)
      = dot2 Op (tH x) (tW x) x dx n c)).
Proof. exact @AFB2D_zero_adjoint. Qed.
Print Assumptions C05_afb2d_zero.
(* periodization, even sizes at least the filter lengths (odd or shorter: known findings) *)
Theorem C05_afb2d_per :
  forall (R:Type) (Op:Ops R) (Rth:RingOk Op) (x Gl Gh:@ten R) Lr h0r h1r Lc h0c h1c,
  2 <= Lr -> Lr mod 2 = 0 -> 2 <= Lc -> Lc mod 2 = 0 ->
  tW x mod 2 = 0 -> Lr <= tW x -> tH x mod 2 = 0 -> Lc <= tH x -> 0 < tC x ->
  let H' := tH x / 2 in let W' := tW x / 2 in
  tN Gl = tN x -> tC Gl = tC x -> tH Gl = H' -> tW Gl = W' ->
  tN Gh = tN x -> tC Gh = 3 * tC x -> tH Gh = H' -> tW Gh = W' ->
  is_ok (AFB2D_fwd Op x Lr h0r h1r Lc h0c h1c M_PER) (fun r =>
  is_ok (AFB2D_bwd Op (tH x) (tW x) Gl Gh Lr h0r h1r Lc h0c h1c M_PER) (fun dx =>
    tN dx = tN x /\ tC dx = tC x /\ tH dx = tH x /\ tW dx = tW x /\
    forall n c, 0 <= c < tC x ->
      radd Op (radd Op (radd Op (dot2 Op H' W' (fst r) Gl n c) (dot2 Op H' W' (unbind3 0 (snd r)) (unbind3 0 Gh) n c))
                       (dot2 Op H' W' (unbind3 1 (snd r)) (unbind3 1 Gh) n c)) (dot2 Op H' W' (unbind3 2 (snd r)) (unbind3 2 Gh) n c)
      = dot2 Op (tH x) (tW x) x dx n c)).
Proof. exact @AFB2D_per_adjoint. Qed.
Print Assumptions C05_afb2d_per.

(* which gradients SFB*.backward returns (after the fix): everything requested *)
Theorem C05_subsets : forall need_low need_high : bool,
  let '(rl, rh) := SFB_bwd_returns need_low need_high in
  (need_low = true -> rl = true) /\ (need_high = true -> rh = true).
Proof. intros [|] [|]; cbn; auto. Qed.
Print Assumptions C05_subsets.

(* symmetric padding is NOT handled by this backward: witness (known finding KF-AFB-BWD-PAD).
   x = e_0 (length 4), L = 4, h0 = (1,2,3,4), h1 = 0, cotangent g = e_0 on the lowpass:
   <A x, g> = (A e_0)[0] but <x, bwd g> = bwd(g)[0] differ. *)
Definition kx : @ten Z := mkT 1 1 1 4 (fun _ _ _ j => if j =? 0 then 1 else 0).
Definition kg : @ten Z := mkT 1 1 1 3 (fun _ _ _ j => if j =? 0 then 1 else 0).
Definition kz : @ten Z := mkT 1 1 1 3 (fun _ _ _ _ => 0).
Definition kh : Z -> Z := fun j => j + 1.
Definition v00 (r:res (@ten Z)) : Z := match r with Ok y => tf y 0 0 0 0 | Err _ => -1 end.
Theorem C05_afb_sym_refuted :
  v00 (afb1d ZOps kx 4 kh (fun _ => 0) M_SYMM 3) <> v00 (sfb1d ZOps kg kz 4 kh (fun _ => 0) M_SYMM 3).
Proof. vm_compute. intro H; discriminate H. Qed.
Print Assumptions C05_afb_sym_refuted.
