(* C19 - the non-separable bank equals the separable one: the outer-product kernel factorises the double sum. *)
From PW Require Import Base.Ops Base.Sum Base.Sig Base.Tensor Model.Dwt.

Section S.
Context {R:Type} (Op:Ops R) (Rth: RingOk Op).
Add Ring Rr : Rth.
Lemma outer_factor Ly Lx (u v:Z->R) (X:Z->Z->R) :
  sumZ Op 0 Ly (fun a => sumZ Op 0 Lx (fun b => rmul Op (rmul Op (u a) (v b)) (X a b)))
  = sumZ Op 0 Ly (fun a => rmul Op (u a) (sumZ Op 0 Lx (fun b => rmul Op (v b) (X a b)))).
Proof. apply sumZ_ext. intros a Ha. rewrite <- sumZ_scale by exact Rth. apply sumZ_ext. intros; ring. Qed.
End S.

(* one 2-D correlation with the outer-product kernel of band b = column correlation (column filter of b) of the row
   correlations (row filter of b), entry by entry of the non-separable model's convolution *)
Theorem C19_kernel_factorises :
  forall (R:Type) (Op:Ops R) (Rth:RingOk Op) (x:@ten R) C Ly Lx (h0c h1c h0r h1r:Z->R) sh sw ph pw n oc i j,
  tf (conv2d_dw Op x (w_afb_nonsep Op C Ly Lx h0c h1c h0r h1r) sh sw ph pw 1 1) n oc i j
  = sumZ Op 0 Ly (fun a => rmul Op (csel h0c h1c (oc mod 4) (Ly-1-a))
      (sumZ Op 0 Lx (fun b => rmul Op (rsel h0r h1r (oc mod 4) (Lx-1-b))
         (tf (t_zpad Op pw pw ph ph x) n (oc / (4*C / tC x)) (i*sh + a*1) (j*sw + b*1))))).
Proof.
  intros. unfold conv2d_dw, w_afb_nonsep. cbn [tf wKH wKW wf wO]. apply outer_factor. exact Rth.
Qed.
Print Assumptions C19_kernel_factorises.
