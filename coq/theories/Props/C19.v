(* C19 - the non-separable bank equals the separable one: the outer-product kernel factorises the double sum. *)
From PW Require Import Base.Ops Base.Sum Base.Sig Base.Tensor Model.Dwt Spec.Line Proofs.DwtNF Proofs.SfbNF Proofs.C19Proofs Proofs.C19ProofsSyn.

Section S.
Context {R:Type} (Op:Ops R) (Rth: RingOk Op).
Add Ring Rr : Rth.
Lemma outer_factor Ly Lx (u v:Z->R) (X:Z->Z->R) :
  sumZ Op 0 Ly (fun a => sumZ Op 0 Lx (fun b => rmul Op (rmul Op (u a) (v b)) (X a b)))
  = sumZ Op 0 Ly (fun a => rmul Op (u a) (sumZ Op 0 Lx (fun b => rmul Op (v b) (X a b)))).
Proof. apply sumZ_ext. intros a Ha. rewrite <- sumZ_scale by exact Rth. apply sumZ_ext. intros; ring. Qed.
End S.

(* one 2-D correlation with the outer-product kernel of band b = column correlation (column filter of b) of the row
   correlations (row filter of b), entry by entry of the non-separable model's convolution *)
Theorem C19_kernel_factorises :
  forall (R:Type) (Op:Ops R) (Rth:RingOk Op) (x:@ten R) C Ly Lx (h0c h1c h0r h1r:Z->R) sh sw ph pw n oc i j,
  tf (conv2d_dw Op x (w_afb_nonsep Op C Ly Lx h0c h1c h0r h1r) sh sw ph pw 1 1) n oc i j
  = sumZ Op 0 Ly (fun a => rmul Op (csel h0c h1c (oc mod 4) (Ly-1-a))
      (sumZ Op 0 Lx (fun b => rmul Op (rsel h0r h1r (oc mod 4) (Lx-1-b))
         (tf (t_zpad Op pw pw ph ph x) n (oc / (4*C / tC x)) (i*sh + a*1) (j*sw + b*1))))).
Proof.
  intros. unfold conv2d_dw, w_afb_nonsep. cbn [tf wKH wKW wf wO]. apply outer_factor. exact Rth.
Qed.
Print Assumptions C19_kernel_factorises.

(* ---- composed equalities on the model: the non-separable bank = the separable functional API ----
   same_vals h w A B: A and B have the same batch/channel shape, spatial shape h x w, and equal values.  The non-separable functions take
   the filters as the caller passes them (they flip them themselves), the separable API takes the registered (reversed) ones. *)
(* analysis, zero padding: every image size, filter lengths, filters *)
Theorem C19_analysis_zero :
  forall (R:Type) (Op:Ops R) (Rth:RingOk Op) (x:@ten R) Ly h0c h1c Lx h0r h1r, 2 <= Ly -> 2 <= Lx -> 1 <= tH x -> 1 <= tW x -> 0 < tC x ->
  is_ok (afb2d_nonsep Op x Ly h0c h1c Lx h0r h1r M_ZERO) (fun y1 =>
  is_ok (afb2d Op x Lx (rev_filt Lx h0r) (rev_filt Lx h1r) Ly (rev_filt Ly h0c) (rev_filt Ly h1c) M_ZERO) (fun y2 =>
    same_vals ((tH x + Ly - 1)/2) ((tW x + Lx - 1)/2) y1 y2)).
Proof. exact @nonsep_zero_eq. Qed.
Print Assumptions C19_analysis_zero.
(* analysis, symmetric padding (every size) and reflect padding (whenever the padding is smaller than the image, else both raise) *)
Theorem C19_analysis_sym_reflect :
  forall (R:Type) (Op:Ops R) (Rth:RingOk Op) (x:@ten R) Ly h0c h1c Lx h0r h1r mode, 2 <= Ly -> 2 <= Lx -> 1 <= tH x -> 1 <= tW x -> 0 < tC x ->
  let aH := (2 * ((tH x + Ly - 1)/2 - 1) - tH x + Ly + 1)/2 in let aW := (2 * ((tW x + Lx - 1)/2 - 1) - tW x + Lx + 1)/2 in
  mode = M_SYMM \/ (mode = M_REFLECT /\ Ly - 2 < tH x /\ aH < tH x /\ Lx - 2 < tW x /\ aW < tW x) ->
  is_ok (afb2d_nonsep Op x Ly h0c h1c Lx h0r h1r mode) (fun y1 =>
  is_ok (afb2d Op x Lx (rev_filt Lx h0r) (rev_filt Lx h1r) Ly (rev_filt Ly h0c) (rev_filt Ly h1c) mode) (fun y2 =>
    same_vals ((tH x + Ly - 1)/2) ((tW x + Lx - 1)/2) y1 y2)).
Proof. exact @nonsep_gather_eq. Qed.
Print Assumptions C19_analysis_sym_reflect.
(* synthesis, four non-periodization modes, ANY four bands of equal shape (channels 4c + b of x) *)
Theorem C19_synthesis :
  forall (R:Type) (Op:Ops R) (Rth:RingOk Op) (x:@ten R) Ly g0c g1c Lx g0r g1r mode, nonper_mode mode ->
  2 <= Ly -> 2 <= Lx -> 1 <= tH x -> 1 <= tW x -> 0 < tC x -> tC x mod 4 = 0 -> 1 <= 2 * tH x - Ly + 2 -> 1 <= 2 * tW x - Lx + 2 ->
  is_ok (sfb2d_nonsep Op x Ly g0c g1c Lx g0r g1r mode) (fun y1 =>
  is_ok (sfb2d Op (band4 0 x) (band4 1 x) (band4 2 x) (band4 3 x) Lx g0r g1r Ly g0c g1c mode) (fun y2 =>
    tN y2 = tN y1 /\ tC y2 = tC y1 /\ tH y1 = 2 * tH x - Ly + 2 /\ tH y2 = 2 * tH x - Ly + 2 /\ tW y1 = 2 * tW x - Lx + 2 /\ tW y2 = 2 * tW x - Lx + 2 /\
    forall n c i j, 0 <= c < tC x / 4 -> 0 <= i < 2 * tH x - Ly + 2 -> 0 <= j < 2 * tW x - Lx + 2 -> tf y1 n c i j = tf y2 n c i j)).
Proof. exact @nonsep_syn_eq. Qed.
Print Assumptions C19_synthesis.

(* analysis, periodization: even filter lengths (every discrete wavelet) not longer than the even-extended image on each axis - the
   guard under which the separable periodization code is itself correct (C01/C17; below it see the known finding there) *)
From PW Require Import Proofs.C19ProofsPer.
Theorem C19_analysis_per :
  forall (R:Type) (Op:Ops R) (Rth:RingOk Op) (x:@ten R) Ly h0c h1c Lx h0r h1r,
  2 <= Ly -> Ly mod 2 = 0 -> Ly <= even_len (tH x) -> 2 <= Lx -> Lx mod 2 = 0 -> Lx <= even_len (tW x) -> 1 <= tH x -> 1 <= tW x -> 0 < tC x ->
  is_ok (afb2d_nonsep Op x Ly h0c h1c Lx h0r h1r M_PER) (fun y1 =>
  is_ok (afb2d Op x Lx (rev_filt Lx h0r) (rev_filt Lx h1r) Ly (rev_filt Ly h0c) (rev_filt Ly h1c) M_PER) (fun y2 =>
    same_vals (even_len (tH x) / 2) (even_len (tW x) / 2) y1 y2)).
Proof. exact @nonsep_per_eq. Qed.
Print Assumptions C19_analysis_per.
(* synthesis, periodization: even filter lengths with L - 2 <= the output length on each axis, ANY four bands *)
From PW Require Import Proofs.C19ProofsSynPer.
Theorem C19_synthesis_per :
  forall (R:Type) (Op:Ops R) (Rth:RingOk Op) (x:@ten R) Ly g0c g1c Lx g0r g1r,
  2 <= Ly -> Ly mod 2 = 0 -> 2 <= Lx -> Lx mod 2 = 0 -> 1 <= tH x -> 1 <= tW x -> 0 < tC x -> tC x mod 4 = 0 ->
  Ly - 2 <= 2 * tH x -> Lx - 2 <= 2 * tW x ->
  is_ok (sfb2d_nonsep Op x Ly g0c g1c Lx g0r g1r M_PER) (fun y1 =>
  is_ok (sfb2d Op (band4 0 x) (band4 1 x) (band4 2 x) (band4 3 x) Lx g0r g1r Ly g0c g1c M_PER) (fun y2 =>
    tN y2 = tN y1 /\ tC y2 = tC y1 /\ tH y1 = 2 * tH x /\ tH y2 = 2 * tH x /\ tW y1 = 2 * tW x /\ tW y2 = 2 * tW x /\
    forall n c i j, 0 <= c < tC x / 4 -> 0 <= i < 2 * tH x -> 0 <= j < 2 * tW x -> tf y1 n c i j = tf y2 n c i j)).
Proof. exact @nonsep_syn_per_eq. Qed.
Print Assumptions C19_synthesis_per.
