(* C08 - scattering layers compute the defined coefficients: layout, size extension, non-negativity. *)
From Coq Require Import Reals.
From PW Require Import Base.Ops Base.Sum Base.Sig Base.Tensor Model.Dwt Model.Dtcwt Model.Scat Proofs.ScatProofs Proofs.SmagReal.
Local Open Scope Z_scope.

(* every magnitude channel is non-negative (real numbers) *)
Theorem C08_nonneg : forall b x y : R, (0 <= b)%R -> (0 <= smagR b x y)%R.
Proof. exact smag_nonneg. Qed.
Print Assumptions C08_nonneg.
Theorem C08_nonneg_colour : forall b x1 y1 x2 y2 x3 y3 : R, (0 <= b)%R -> (0 <= smag3R b x1 y1 x2 y2 x3 y3)%R.
Proof. exact smag3_nonneg. Qed.
Print Assumptions C08_nonneg_colour.

(* second-order layer: every height/width >= 3 is extended to the next multiple of 8 (so the output is ceil(H/8)*8/4) *)
Theorem C08_ext8_rows : forall (T:Type) (x:@ten T), 3 <= tH x ->
  tH (ext8 2 x) mod 8 = 0 /\ tH x <= tH (ext8 2 x) < tH x + 8 /\ tW (ext8 2 x) = tW x /\ tC (ext8 2 x) = tC x /\ tN (ext8 2 x) = tN x.
Proof. intros T x. exact (ext8_rows x). Qed.
Print Assumptions C08_ext8_rows.
Theorem C08_ext8_cols : forall (T:Type) (x:@ten T), 3 <= tW x ->
  tW (ext8 3 x) mod 8 = 0 /\ tW x <= tW (ext8 3 x) < tW x + 8 /\ tH (ext8 3 x) = tH x /\ tC (ext8 3 x) = tC x /\ tN (ext8 3 x) = tN x.
Proof. intros T x. exact (ext8_cols x). Qed.
Print Assumptions C08_ext8_cols.
Theorem C08_ext8_size2_refuted : tH (ext8 2 (mkT 1 1 2 8 (fun _ _ _ _ => 0))) = 6.
Proof. exact ext8_size2_refuted. Qed.
Print Assumptions C08_ext8_size2_refuted.

(* first-order layer, greyscale: output channel band*C + c; band 0 the pooled lowpass, band 1+o the smoothed magnitude of orientation o *)
Theorem C08_j1_layout :
  forall (T:Type) (Op:Ops T) (X:XOps T) (b:T) (C:Z) (lp:@ten T) (p:list (@ten T)) n q i j, 0 < C -> tC lp = C -> 0 <= q < 7*C ->
  tf (t_cat 1 lp (mags Op X b C p)) n q i j =
  if q <? C then tf lp n q i j
  else smag Op X b (tf (pl Op p ((q - C)/C) 0) n ((q - C) mod C) i j) (tf (pl Op p ((q - C)/C) 1) n ((q - C) mod C) i j).
Proof. intros T Op X b C lp p n q i j. exact (j1_layout Op X b C lp p n q i j). Qed.
Print Assumptions C08_j1_layout.
