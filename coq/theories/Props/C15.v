(* C15 - calls are pure (over the effect abstraction generated from the source on every run). *)
From Coq Require Import List String.
From PW Require Import Gen.Effects Proofs.EffectsProofs.
Import ListNotations.

(* every in-place site targets a tensor the function itself just produced (or a plain integer), no forward/backward writes
   to self, the only global write is the insert-if-absent into COEFF_CACHE, the process default dtype is read at
   construction time only, nothing is memoised *)
Theorem C15_effects_ok : effects_ok = true.
Proof. exact effects_hold. Qed.
Print Assumptions C15_effects_ok.

Theorem C15_history_independent :
  forall (table params dtype modl arg out : Type) (file : string -> table)
         (build : params -> dtype -> (string -> table) -> modl) (needs : params -> list string) (run : modl -> arg -> out),
  (forall p d f g, (forall n, f n = g n) -> build p d f = build p d g) ->
  forall (h : list (op params dtype arg)) (w0 : world table dtype modl) p d x,
  cache_ok table file (wcache _ _ _ w0) ->
  let w1 := runs table params dtype modl arg out file build needs run w0 (h ++ [SetDefault _ _ _ d; Construct _ _ _ p]) in
  snd (step table params dtype modl arg out file build needs run w1 (Call _ _ _ (List.length (wmods _ _ _ w1) - 1) x))
  = Some (run (build p d file) x).
Proof. intros. apply history_independent; assumption. Qed.
Print Assumptions C15_history_independent.
