(* C04 - DTCWT perfect reconstruction: level 1 on a column, for ANY symmetric odd analysis pair and synthesis pair that
   meet the biorthogonal condition (discharged for the shipped tables, within 2^-44, in C18_tables: level1_PR and
   level1_symmetric), and the quad <-> complex conversion. *)
From PW Require Import Base.Ops Base.Sum Base.Sig Base.Tensor Model.Dwt Model.Dtcwt Spec.Line Proofs.QuadProofs Proofs.SymExt.

(* the symmetric extension of the output of a symmetric odd filter is the line filtering of the symmetric extension:
   this is what lets the synthesis filters see a correctly extended signal *)
Theorem C04_extension_commutes :
  forall (R:Type) (Op:Ops R) (Rth:RingOk Op) L r (h x:Z->R) u, 0 < r -> L mod 2 = 1 -> Symmetric L h ->
  ext_sym r (cfline Op L r h x) u = cfline Op L r h x u.
Proof. exact @ext_of_cf. Qed.
Print Assumptions C04_extension_commutes.

Theorem C04_level1_line :
  forall (R:Type) (Op:Ops R) (Rth:RingOk Op) Lh0 Lg0 Lh1 Lg1 M r (h0 g0 h1 g1 x:Z->R) i,
  0 < r -> Lh0 mod 2 = 1 -> Lh1 mod 2 = 1 -> Symmetric Lh0 h0 -> Symmetric Lh1 h1 ->
  1 <= Lg0 -> 1 <= Lg1 -> 1 <= Lh0 -> 1 <= Lh1 ->
  Lg0/2 + Lh0/2 = M -> Lg1/2 + Lh1/2 = M -> Lg0 + Lh0 - 1 = 2*M + 1 -> Lg1 + Lh1 - 1 = 2*M + 1 ->
  BiortPR Op Lh0 Lg0 Lh1 Lg1 M h0 g0 h1 g1 ->
  0 <= i < r ->
  radd Op (cfline Op Lg0 r g0 (cfline Op Lh0 r h0 x) i) (cfline Op Lg1 r g1 (cfline Op Lh1 r h1 x) i) = x i.
Proof. exact @level1_pr_line. Qed.
Print Assumptions C04_level1_line.

(* c2q after q2c is multiplication by 2 s^2, i.e. the identity for s = 1/sqrt 2 *)
Theorem C04_c2q_q2c :
  forall (R:Type) (Op:Ops R) (Rth:RingOk Op) (s:R) (y:@ten R) n c i j, 0 <= i -> 0 <= j ->
  let '((z1r, z1i), (z2r, z2i)) := q2c Op s y in
  tf (c2q Op s z1r z1i z2r z2i) n c i j = rmul Op (rmul Op (rmul Op (radd Op (r1 Op) (r1 Op)) s) s) (tf y n c i j).
Proof. intros R Op Rth s y n c i j Hi Hj. exact (c2q_q2c Op Rth s y n c i j Hi Hj). Qed.
Print Assumptions C04_c2q_q2c.

(* non-vacuity: LeGall 5/3 over Z (scaled by 8): h0 = (-1,2,6,2,-1), g0 = (2,4,2)/.., the kernel condition holds with 64*delta;
   checked here on the integer pair  h0 = (-1,2,6,2,-1), h1 = (-1,2,-1) , g0 = (1,2,1), g1 = (-1,-2,6,-2,-1): sum = 32*delta *)
Example C04_legall_kernel :
  let h0 := of_list ZOps [-1;2;6;2;-1] in let h1 := of_list ZOps [-1;2;-1] in
  let g0 := of_list ZOps [1;2;1] in let g1 := of_list ZOps [-1;-2;6;-2;-1] in
  forallb (fun d => (sumZ ZOps 0 3 (fun b => if inr 5 (d - b) then g0 b * h0 (d - b) else 0)
                   + sumZ ZOps 0 5 (fun b => if inr 3 (d - b) then g1 b * h1 (d - b) else 0)) =? (if d =? 3 then 32 else 0))
          [0;1;2;3;4;5;6] = true.
Proof. vm_compute. reflexivity. Qed.
