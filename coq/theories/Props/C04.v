(* C04 - DTCWT perfect reconstruction: level 1 on a column, for ANY symmetric odd analysis pair and synthesis pair that
   meet the biorthogonal condition (discharged for the shipped tables, within 2^-44, in C18_tables: level1_PR and
   level1_symmetric), and the quad <-> complex conversion. *)
From PW Require Import Base.Ops Base.Sum Base.Sig Base.Tensor Model.Dwt Model.Dtcwt Spec.Line Spec.DtcwtRef Proofs.DwtNF Proofs.DtcwtNF Proofs.QuadProofs Proofs.SymExt
  Proofs.QshiftAdj Proofs.QshiftPR Proofs.QshiftTensor Proofs.TablesProofs Proofs.QshiftTables
  Proofs.DtcwtNFrow Proofs.QshiftLevel Proofs.DtcwtLevel1 Proofs.DtcwtPR.

(* the symmetric extension of the output of a symmetric odd filter is the line filtering of the symmetric extension:
   this is what lets the synthesis filters see a correctly extended signal *)
Theorem C04_extension_commutes :
  forall (R:Type) (Op:Ops R) (Rth:RingOk Op) L r (h x:Z->R) u, 0 < r -> L mod 2 = 1 -> Symmetric L h ->
  ext_sym r (cfline Op L r h x) u = cfline Op L r h x u.
Proof. exact @ext_of_cf. Qed.
Print Assumptions C04_extension_commutes.

Theorem C04_level1_line :
  forall (R:Type) (Op:Ops R) (Rth:RingOk Op) Lh0 Lg0 Lh1 Lg1 M r (h0 g0 h1 g1 x:Z->R) i,
  0 < r -> Lh0 mod 2 = 1 -> Lh1 mod 2 = 1 -> Symmetric Lh0 h0 -> Symmetric Lh1 h1 ->
  1 <= Lg0 -> 1 <= Lg1 -> 1 <= Lh0 -> 1 <= Lh1 ->
  Lg0/2 + Lh0/2 = M -> Lg1/2 + Lh1/2 = M -> Lg0 + Lh0 - 1 = 2*M + 1 -> Lg1 + Lh1 - 1 = 2*M + 1 ->
  BiortPR Op Lh0 Lg0 Lh1 Lg1 M h0 g0 h1 g1 ->
  0 <= i < r ->
  radd Op (cfline Op Lg0 r g0 (cfline Op Lh0 r h0 x) i) (cfline Op Lg1 r g1 (cfline Op Lh1 r h1 x) i) = x i.
Proof. exact @level1_pr_line. Qed.
Print Assumptions C04_level1_line.

(* c2q after q2c is multiplication by 2 s^2, i.e. the identity for s = 1/sqrt 2 *)
Theorem C04_c2q_q2c :
  forall (R:Type) (Op:Ops R) (Rth:RingOk Op) (s:R) (y:@ten R) n c i j, 0 <= i -> 0 <= j ->
  let '((z1r, z1i), (z2r, z2i)) := q2c Op s y in
  tf (c2q Op s z1r z1i z2r z2i) n c i j = rmul Op (rmul Op (rmul Op (radd Op (r1 Op) (r1 Op)) s) s) (tf y n c i j).
Proof. intros R Op Rth s y n c i j Hi Hj. exact (c2q_q2c Op Rth s y n c i j Hi Hj). Qed.
Print Assumptions C04_c2q_q2c.

(* non-vacuity: LeGall 5/3 over Z (scaled by 8): h0 = (-1,2,6,2,-1), g0 = (2,4,2)/.., the kernel condition holds with 64*delta;
   checked here on the integer pair  h0 = (-1,2,6,2,-1), h1 = (-1,2,-1) , g0 = (1,2,1), g1 = (-1,-2,6,-2,-1): sum = 32*delta *)
Example C04_legall_kernel :
  let h0 := of_list ZOps [-1;2;6;2;-1] in let h1 := of_list ZOps [-1;2;-1] in
  let g0 := of_list ZOps [1;2;1] in let g1 := of_list ZOps [-1;-2;6;-2;-1] in
  forallb (fun d => (sumZ ZOps 0 3 (fun b => if inr 5 (d - b) then g0 b * h0 (d - b) else 0)
                   + sumZ ZOps 0 5 (fun b => if inr 3 (d - b) then g1 b * h1 (d - b) else 0)) =? (if d =? 3 then 32 else 0))
          [0;1;2;3;4;5;6] = true.
Proof. vm_compute. reflexivity. Qed.

(* ---- levels >= 2: the q-shift stage ---- *)
(* the symmetric extension of the decimated dual-tree output is the dual-tree formula itself at every index - when the
   tree-b filter is the tree-a filter reversed: this is what lets colifilt see a correctly extended signal *)
Theorem C04_qshift_extension_commutes :
  forall (R:Type) (Op:Ops R) (Rth:RingOk Op) m r e (fe' fo' x:Z->R) k, 2 <= m -> 0 < r /\ r mod 4 = 0 ->
  (forall j, 0 <= j < m -> fo' j = fe' (m-1-j)) ->
  ext_sym (r/2) (Dk Op m r e fe' fo' x) k = Dk Op m r e fe' fo' x k.
Proof. intros R Op Rth m r e fe' fo' x k Hm Hr Hv. exact (ext_Dk Op Rth m r e x x fe' fo' x Hr Hv k). Qed.
Print Assumptions C04_qshift_extension_commutes.

(* one stage on a column: colifilt (coldfilt x) over the lowpass and the highpass pair sums to x, for EVERY column length
   r = 0 mod 4 (also shorter than the filters), every even filter length, both sampling layouts, under
   (i) RevPair: each b filter is the a filter reversed, (ii) QPRref: the filter-only kernel condition (4 output phases) *)
Theorem C04_qshift_stage_line :
  forall (R:Type) (Op:Ops R) (Rth:RingOk Op) m r (pos0 pos1:bool) (h0a h0b g0a g0b h1a h1b g1a g1b x:Z->R) u,
  2 <= m -> m mod 2 = 0 -> 0 < r -> r mod 4 = 0 ->
  RevPair m h0a h0b -> RevPair m g0a g0b -> RevPair m h1a h1b -> RevPair m g1a g1b ->
  QPRref Op m pos0 h0a h0b g0a g0b pos1 h1a h1b g1a g1b -> 0 <= u < r ->
  radd Op (ref_colifilt Op m (r/2) g0a g0b (ref_coldfilt Op m r h0a h0b x pos0) pos0 u)
          (ref_colifilt Op m (r/2) g1a g1b (ref_coldfilt Op m r h1a h1b x pos1) pos1 u) = x u.
Proof. exact @qshift_pr_ref. Qed.
Print Assumptions C04_qshift_stage_line.

(* on the model of the code (column pass of fwd_j2plus / inv_j2plus: lowpass branch highpass=False, highpass branch True) *)
Theorem C04_qshift_stage_col :
  forall (R:Type) (Op:Ops R) (Rth:RingOk Op) (x:@ten R) L (H0A H0B G0A G0B H1A H1B G1A G1B:Z->R),
  2 <= L -> L mod 2 = 0 -> 4 <= tH x -> tH x mod 4 = 0 -> 1 <= tW x -> 0 < tC x ->
  RevPair L H0A H0B -> RevPair L G0A G0B -> RevPair L H1A H1B -> RevPair L G1A G1B ->
  QPRref Op L true H0A H0B G0A G0B false H1A H1B G1A G1B ->
  is_ok (dfilt Op 2 x L (rev_filt L H0A) (rev_filt L H0B) false) (fun lo =>
  is_ok (dfilt Op 2 x L (rev_filt L H1A) (rev_filt L H1B) true) (fun hi =>
  is_ok (ifilt Op 2 lo L (rev_filt L G0A) (rev_filt L G0B) false) (fun y0 =>
  is_ok (ifilt Op 2 hi L (rev_filt L G1A) (rev_filt L G1B) true) (fun y1 =>
    tH y0 = tH x /\ tH y1 = tH x /\
    forall n c i j, 0 <= c < tC x -> 0 <= i < tH x -> 0 <= j < tW x -> radd Op (tf y0 n c i j) (tf y1 n c i j) = tf x n c i j)))).
Proof. exact @dfilt_ifilt_pr_col. Qed.
Print Assumptions C04_qshift_stage_col.

(* ---- whole levels and the whole pyramid, 2-D, on the model of the code ----
   same_on X Y: Y has the shape of X and equals X on its extent.  The ring element s stands for 1/sqrt 2 (2 s^2 = 1). *)
(* level 1: rows then columns with colfilter/rowfilter, q2c, and back (c2q, the crop is a no-op on even sizes) *)
Theorem C04_level1_2d :
  forall (R:Type) (Op:Ops R) (Rth:RingOk Op) Lh0 Lg0 Lh1 Lg1 M (h0 g0 h1 g1:Z->R),
  Lh0 mod 2 = 1 /\ Lh1 mod 2 = 1 -> Symmetric Lh0 h0 /\ Symmetric Lh1 h1 ->
  1 <= Lg0 /\ 1 <= Lg1 /\ 1 <= Lh0 /\ 1 <= Lh1 /\ Lg0 mod 2 = 1 /\ Lg1 mod 2 = 1 ->
  Lg0/2 + Lh0/2 = M /\ Lg1/2 + Lh1/2 = M /\ Lg0 + Lh0 - 1 = 2*M + 1 /\ Lg1 + Lh1 - 1 = 2*M + 1 ->
  BiortPR Op Lh0 Lg0 Lh1 Lg1 M h0 g0 h1 g1 ->
  forall s:R, rmul Op (rmul Op (radd Op (r1 Op) (r1 Op)) s) s = r1 Op ->
  forall x:@ten R, 2 <= tH x -> tH x mod 2 = 0 -> 2 <= tW x -> tW x mod 2 = 0 -> 0 < tC x ->
  is_ok (fwd_j1 Op s x Lh0 h0 Lh1 h1 false M_SYMM) (fun r =>
  is_ok (inv_j1 Op s (Some (fst r)) (snd r) Lg0 g0 Lg1 g1 M_SYMM) (same_on x)).
Proof. exact @level1_pr_2d. Qed.
Print Assumptions C04_level1_2d.

(* one level >= 2: rowdfilt/coldfilt, q2c, and back with colifilt/rowifilt *)
Theorem C04_qshift_level_2d :
  forall (R:Type) (Op:Ops R) (Rth:RingOk Op) (s:R), rmul Op (rmul Op (radd Op (r1 Op) (r1 Op)) s) s = r1 Op ->
  forall L (H0A H0B G0A G0B H1A H1B G1A G1B:Z->R), 2 <= L /\ L mod 2 = 0 ->
  RevPair L H0A H0B -> RevPair L G0A G0B -> RevPair L H1A H1B -> RevPair L G1A G1B ->
  QPRref Op L true H0A H0B G0A G0B false H1A H1B G1A G1B ->
  forall x:@ten R, 4 <= tH x -> tH x mod 4 = 0 -> 4 <= tW x -> tW x mod 4 = 0 -> 0 < tC x ->
  is_ok (fwd_j2plus Op s x L (rev_filt L H0B) (rev_filt L H0A) L (rev_filt L H1B) (rev_filt L H1A) false) (fun r =>
  is_ok (inv_j2plus Op s (Some (fst r)) (snd r) L (rev_filt L G0B) (rev_filt L G0A) L (rev_filt L G1B) (rev_filt L G1A)) (same_on x)).
Proof. exact @qshift_level_pr. Qed.
Print Assumptions C04_qshift_level_2d.

(* the whole pyramid: every J = 1 + length m, every image size >= 1 (odd sizes are first extended by repeating the last row /
   column): the forward loop pads each lowpass to a multiple of 4, the inverse loop crops it again, and the result is the
   even-extended image with the original in its top-left corner *)
Theorem C04_pyramid :
  forall (R:Type) (Op:Ops R) (Rth:RingOk Op) (s:R), rmul Op (rmul Op (radd Op (r1 Op) (r1 Op)) s) s = r1 Op ->
  forall L (H0A H0B G0A G0B H1A H1B G1A G1B:Z->R), 2 <= L /\ L mod 2 = 0 ->
  RevPair L H0A H0B -> RevPair L G0A G0B -> RevPair L H1A H1B -> RevPair L G1A G1B ->
  QPRref Op L true H0A H0B G0A G0B false H1A H1B G1A G1B ->
  forall Lh0 Lg0 Lh1 Lg1 M (h0 g0 h1 g1:Z->R),
  Lh0 mod 2 = 1 /\ Lh1 mod 2 = 1 -> Symmetric Lh0 h0 /\ Symmetric Lh1 h1 ->
  1 <= Lg0 /\ 1 <= Lg1 /\ 1 <= Lh0 /\ 1 <= Lh1 /\ Lg0 mod 2 = 1 /\ Lg1 mod 2 = 1 ->
  Lg0/2 + Lh0/2 = M /\ Lg1/2 + Lh1/2 = M /\ Lg0 + Lh0 - 1 = 2*M + 1 /\ Lg1 + Lh1 - 1 = 2*M + 1 ->
  BiortPR Op Lh0 Lg0 Lh1 Lg1 M h0 g0 h1 g1 ->
  forall (m:list bool) (x:@ten R), 1 <= tH x -> 1 <= tW x -> 0 < tC x ->
  is_ok (DTCWTForward Op s (false :: map (fun _ => false) m) x Lh0 h0 Lh1 h1
           L (rev_filt L H0B) (rev_filt L H0A) L (rev_filt L H1B) (rev_filt L H1A) M_SYMM) (fun lst =>
  is_ok (DTCWTInverse Op s (Some (fst (last lst (x, nil)))) (map snd lst) Lg0 g0 Lg1 g1
           L (rev_filt L G0B) (rev_filt L G0A) L (rev_filt L G1B) (rev_filt L G1A) M_SYMM) (fun y =>
    same_on (force Op (ext_even x)) y /\
    forall n c i j, 0 <= c < tC x -> 0 <= i < tH x -> 0 <= j < tW x -> tf y n c i j = tf x n c i j)).
Proof. exact @dtcwt_pr. Qed.
Print Assumptions C04_pyramid.

(* (i) holds exactly and (ii) within 2^-48 entrywise (qshift_32: 2^-26) for every shipped q-shift table, and all eight filters
   of a table have the same even length; the exact condition is satisfiable over Z *)
Theorem C04_qshift_tables :
  qshift_revpair = true /\ qshift_same_len = true /\ qshift_kernels_ok = true.
Proof. split; [exact (proj1 (proj2 (proj2 (proj2 (proj2 tables_ok))))) | split; [exact (proj1 qshift_kernels_hold) | exact (proj1 (proj2 qshift_kernels_hold))]]. Qed.
Print Assumptions C04_qshift_tables.
Example C04_QPR_satisfiable :
  QPRref ZOps 2 true (f2 (-1) 0) (f2 0 (-1)) (f2 0 (-1)) (f2 (-1) 0) false (f2 0 (-1)) (f2 (-1) 0) (f2 (-1) 0) (f2 0 (-1)).
Proof. exact QPR_exact_example. Qed.

