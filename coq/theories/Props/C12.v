(* C12 - options only re-arrange outputs: the axis tables (generated from /repo on every run). *)
From Coq Require Import ZArith List Bool.
From PW Require Import Base.Ops Base.Tensor Model.Dwt Model.Dtcwt Gen.Dims Proofs.DimsProofs Proofs.C12Proofs.
Open Scope Z_scope.

(* for all 30 ordered pairs of distinct positions and their negative aliases (144 integer pairs) *)
Theorem C12_dims_correct : forall o ri : Z, -6 <= o < 6 -> -6 <= ri < 6 -> o mod 6 <> ri mod 6 ->
  ok5 o ri = true /\ ok6 o ri = true.
Proof. exact dims_correct. Qed.
Print Assumptions C12_dims_correct.

(* non-vacuity *)
Example C12_example : ok6 2 (-1) = true /\ get_dimensions6 2 (-1) = (2, 5, 3, 4) /\ get_dimensions6 2 4 = (2, 4, 3, 5).
Proof. vm_compute. repeat split. Qed.

(* ---- the level loop of DTCWTForward (model; per level: lowpass after that level, highpass planes) ---- *)
(* skipping levels (any mask) replaces exactly those levels' highpass outputs by nothing; every lowpass and every other level is
   the unmasked transform's *)
Theorem C12_skip_mask :
  forall (R:Type) (Op:Ops R) (s:R) (m:list bool) (x:@ten R) Lo0 h0o Lo1 h1o L0 h0a h0b L1 h1a h1b mode l,
  DTCWTForward Op s (map (fun _ => false) m) x Lo0 h0o Lo1 h1o L0 h0a h0b L1 h1a h1b mode = Ok l ->
  DTCWTForward Op s m x Lo0 h0o Lo1 h1o L0 h0a h0b L1 h1a h1b mode = Ok (maskl m l).
Proof. exact @DTCWTForward_mask. Qed.
Print Assumptions C12_skip_mask.

(* prefix consistency: the per-level results (hence the first j levels AND the lowpass requested after each of them) of a longer
   transform are those of the j-level transform *)
Theorem C12_prefix :
  forall (R:Type) (Op:Ops R) (s:R) (m1 m2:list bool) (x:@ten R) Lo0 h0o Lo1 h1o L0 h0a h0b L1 h1a h1b mode l, m1 <> nil ->
  DTCWTForward Op s (m1 ++ m2) x Lo0 h0o Lo1 h1o L0 h0a h0b L1 h1a h1b mode = Ok l ->
  DTCWTForward Op s m1 x Lo0 h0o Lo1 h1o L0 h0a h0b L1 h1a h1b mode = Ok (firstn (length m1) l).
Proof. exact @DTCWTForward_prefix. Qed.
Print Assumptions C12_prefix.

