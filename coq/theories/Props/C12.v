(* C12 - options only re-arrange outputs: the axis tables (generated from /repo on every run). *)
From Coq Require Import ZArith List Bool.
From PW Require Import Gen.Dims Proofs.DimsProofs.
Open Scope Z_scope.

(* for all 30 ordered pairs of distinct positions and their negative aliases (144 integer pairs) *)
Theorem C12_dims_correct : forall o ri : Z, -6 <= o < 6 -> -6 <= ri < 6 -> o mod 6 <> ri mod 6 ->
  ok5 o ri = true /\ ok6 o ri = true.
Proof. exact dims_correct. Qed.
Print Assumptions C12_dims_correct.

(* non-vacuity *)
Example C12_example : ok6 2 (-1) = true /\ get_dimensions6 2 (-1) = (2, 5, 3, 4) /\ get_dimensions6 2 4 = (2, 4, 3, 5).
Proof. vm_compute. repeat split. Qed.
