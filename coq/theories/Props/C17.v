(* C17 - orthogonal wavelets with periodization give an orthogonal transform (line level; the model computes these
   closed forms by C01_level_row_per and C10_level_per_row under the same guard: even length >= filter length). *)
From PW Require Import Base.Ops Base.Sum Base.Sig Spec.Line Proofs.LineTheory Proofs.CircPR.

(* the circular synthesis with the analysis filters is the transpose of the circular analysis *)
Theorem C17_inverse_is_transpose :
  forall (R:Type) (Op:Ops R) (Rth:RingOk Op) (L N:Z) (h x g:Z->R), 2 <= L -> L mod 2 = 0 -> 0 < N -> N mod 2 = 0 ->
  dot Op (N/2) (ana_per Op L N h x) g = dot Op N x (synT_per Op L N (N/2) h g).
Proof. exact @adjoint_per. Qed.
Print Assumptions C17_inverse_is_transpose.

(* hence, when synthesis with the same pair reconstructs (orthonormal pair: rec = reversed dec = the registered
   analysis filter), inner products - and energy, y := x - are preserved *)
Theorem C17_inner_from_pr :
  forall (R:Type) (Op:Ops R) (Rth:RingOk Op) (L N:Z) (h0 h1 x y:Z->R), 2 <= L -> L mod 2 = 0 -> 0 < N -> N mod 2 = 0 ->
  (forall i, 0 <= i < N -> syn_per Op L (N/2) h0 h1 (ana_per Op L N h0 y) (ana_per Op L N h1 y) i = y i) ->
  radd Op (dot Op (N/2) (ana_per Op L N h0 x) (ana_per Op L N h0 y)) (dot Op (N/2) (ana_per Op L N h1 x) (ana_per Op L N h1 y))
  = dot Op N x y.
Proof. exact @inner_preserved. Qed.
Print Assumptions C17_inner_from_pr.

(* with the filter-only kernel condition on the registered pair (orthogonal bank: synthesis filters = registered analysis filters)
   nothing else is assumed: the circular transform preserves inner products - and energy, y := x - for EVERY even length *)
Theorem C17_orthogonal :
  forall (R:Type) (Op:Ops R) (Rth:RingOk Op) (L N:Z) (h0 h1 x y:Z->R), 2 <= L -> L mod 2 = 0 -> 0 < N -> N mod 2 = 0 ->
  PRcond Op L (rev_filt L h0) (rev_filt L h1) h0 h1 ->
  radd Op (dot Op (N/2) (ana_per Op L N h0 x) (ana_per Op L N h0 y)) (dot Op (N/2) (ana_per Op L N h1 x) (ana_per Op L N h1 y))
  = dot Op N x y.
Proof. exact @inner_preserved_orth. Qed.
Print Assumptions C17_orthogonal.
(* and the inverse of that transform is its transpose *)
Theorem C17_inverse_reconstructs :
  forall (R:Type) (Op:Ops R) (Rth:RingOk Op) (L N:Z) (h0 h1 x:Z->R) i, 2 <= L -> L mod 2 = 0 -> 0 < N -> N mod 2 = 0 ->
  PRcond Op L (rev_filt L h0) (rev_filt L h1) h0 h1 -> 0 <= i < N ->
  syn_per Op L (N/2) h0 h1 (ana_per Op L N (rev_filt L (rev_filt L h0)) x) (ana_per Op L N (rev_filt L (rev_filt L h1)) x) i = x i.
Proof. intros. apply circ_pr; assumption. Qed.
Print Assumptions C17_inverse_reconstructs.
(* non-vacuity of the kernel condition for an orthogonal integer bank: the lazy bank h0 = (1,0), h1 = (0,1) *)
Example C17_PRcond_lazy :
  let h0 := fun m:Z => if m =? 0 then 1 else 0 in let h1 := fun m:Z => if m =? 0 then 0 else 1 in
  PRcond ZOps 2 (rev_filt 2 h0) (rev_filt 2 h1) h0 h1.
Proof.
  intros h0 h1 p d Hp Hd. assert (Hp': p = 0 \/ p = 1) by lia. assert (Hd': d = -1 \/ d = 0 \/ d = 1) by lia.
  destruct Hp' as [->| ->]; destruct Hd' as [->|[->| ->]]; vm_compute; reflexivity.
Qed.

(* non-vacuity: unnormalised Haar over Z, N = 4: <Ax,Ay> = 2 <x,y> (orthogonal up to the factor 2 of integer Haar) *)
Example C17_haar :
  let h0 := fun b:Z => 1 in let h1 := fun b:Z => if b =? 0 then 1 else -1 in
  let x := fun i:Z => i + 1 in let y := fun i:Z => 3 - i*i in
  dot ZOps 2 (ana_per ZOps 2 4 h0 x) (ana_per ZOps 2 4 h0 y) + dot ZOps 2 (ana_per ZOps 2 4 h1 x) (ana_per ZOps 2 4 h1 y)
  = 2 * dot ZOps 4 x y.
Proof. vm_compute. reflexivity. Qed.
