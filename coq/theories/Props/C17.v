(* C17 - orthogonal wavelets with periodization give an orthogonal transform (line level; the model computes these
   closed forms by C01_level_row_per and C10_level_per_row under the same guard: even length >= filter length). *)
From PW Require Import Base.Ops Base.Sum Base.Sig Spec.Line Proofs.LineTheory.

(* the circular synthesis with the analysis filters is the transpose of the circular analysis *)
Theorem C17_inverse_is_transpose :
  forall (R:Type) (Op:Ops R) (Rth:RingOk Op) (L N:Z) (h x g:Z->R), 2 <= L -> L mod 2 = 0 -> 0 < N -> N mod 2 = 0 ->
  dot Op (N/2) (ana_per Op L N h x) g = dot Op N x (synT_per Op L N (N/2) h g).
Proof. exact @adjoint_per. Qed.
Print Assumptions C17_inverse_is_transpose.

(* hence, when synthesis with the same pair reconstructs (orthonormal pair: rec = reversed dec = the registered
   analysis filter), inner products - and energy, y := x - are preserved *)
Theorem C17_inner_from_pr :
  forall (R:Type) (Op:Ops R) (Rth:RingOk Op) (L N:Z) (h0 h1 x y:Z->R), 2 <= L -> L mod 2 = 0 -> 0 < N -> N mod 2 = 0 ->
  (forall i, 0 <= i < N -> syn_per Op L (N/2) h0 h1 (ana_per Op L N h0 y) (ana_per Op L N h1 y) i = y i) ->
  radd Op (dot Op (N/2) (ana_per Op L N h0 x) (ana_per Op L N h0 y)) (dot Op (N/2) (ana_per Op L N h1 x) (ana_per Op L N h1 y))
  = dot Op N x y.
Proof. exact @inner_preserved. Qed.
Print Assumptions C17_inner_from_pr.

(* non-vacuity: unnormalised Haar over Z, N = 4: <Ax,Ay> = 2 <x,y> (orthogonal up to the factor 2 of integer Haar) *)
Example C17_haar :
  let h0 := fun b:Z => 1 in let h1 := fun b:Z => if b =? 0 then 1 else -1 in
  let x := fun i:Z => i + 1 in let y := fun i:Z => 3 - i*i in
  dot ZOps 2 (ana_per ZOps 2 4 h0 x) (ana_per ZOps 2 4 h0 y) + dot ZOps 2 (ana_per ZOps 2 4 h1 x) (ana_per ZOps 2 4 h1 y)
  = 2 * dot ZOps 4 x y.
Proof. vm_compute. reflexivity. Qed.
