(* C07 - transforms are linear and act per (batch, channel) slice.  The normal forms (C01/C10/C13) state that entry
   (n, 2c+t, i, k) of the analysis model is F_t applied to the line x[n,c,i,:], with F_t not mentioning n, c, i or the
   batch/channel counts - that is the slice independence; linearity of F_t is proved here. *)
From PW Require Import Base.Ops Base.Sum Base.Sig Base.Tensor Model.Dwt Spec.Line Proofs.ConvLine Proofs.DwtNF Proofs.LineTheory Proofs.SfbNF Proofs.C01Proofs.

Theorem C07_ana_linear :
  forall (R:Type) (Op:Ops R) (Rth:RingOk Op) L (h e1 e2:Z->R) a b k,
  ana Op L h (fun q => radd Op (rmul Op a (e1 q)) (rmul Op b (e2 q))) k
  = radd Op (rmul Op a (ana Op L h e1 k)) (rmul Op b (ana Op L h e2 k)).
Proof. exact @ana_linear. Qed.
Print Assumptions C07_ana_linear.
Theorem C07_ana_per_linear :
  forall (R:Type) (Op:Ops R) (Rth:RingOk Op) L N (h e1 e2:Z->R) a b k,
  ana_per Op L N h (fun q => radd Op (rmul Op a (e1 q)) (rmul Op b (e2 q))) k
  = radd Op (rmul Op a (ana_per Op L N h e1 k)) (rmul Op b (ana_per Op L N h e2 k)).
Proof. exact @ana_per_linear. Qed.
Print Assumptions C07_ana_per_linear.
Theorem C07_syn_linear :
  forall (R:Type) (Op:Ops R) (Rth:RingOk Op) L n (g0 g1 lo1 hi1 lo2 hi2:Z->R) a b m,
  syn Op L n g0 g1 (fun k => radd Op (rmul Op a (lo1 k)) (rmul Op b (lo2 k))) (fun k => radd Op (rmul Op a (hi1 k)) (rmul Op b (hi2 k))) m
  = radd Op (rmul Op a (syn Op L n g0 g1 lo1 hi1 m)) (rmul Op b (syn Op L n g0 g1 lo2 hi2 m)).
Proof. exact @syn_linear. Qed.
Print Assumptions C07_syn_linear.
Theorem C07_syn_per_linear :
  forall (R:Type) (Op:Ops R) (Rth:RingOk Op) L n (g0 g1 lo1 hi1 lo2 hi2:Z->R) a b m,
  syn_per Op L n g0 g1 (fun k => radd Op (rmul Op a (lo1 k)) (rmul Op b (lo2 k))) (fun k => radd Op (rmul Op a (hi1 k)) (rmul Op b (hi2 k))) m
  = radd Op (rmul Op a (syn_per Op L n g0 g1 lo1 hi1 m)) (rmul Op b (syn_per Op L n g0 g1 lo2 hi2 m)).
Proof. exact @syn_per_linear. Qed.
Print Assumptions C07_syn_per_linear.

(* slice independence of the analysis model (row pass, zero mode shown; the other modes have the same shape of statement
   in C01_level_row): one operator for every (n, c, i), whatever N and C *)
Theorem C07_slice_afb_zero :
  forall (R:Type) (Op:Ops R) (Rth:RingOk Op) (L:Z) (h0 h1:Z->R), 2 <= L ->
  exists F : Z -> Z -> (Z -> R) -> Z -> R,      (* F width t line k *)
  forall (x:@ten R), 1 <= tW x -> 1 <= tH x -> 0 < tC x ->
  is_ok (afb1d Op x L h0 h1 M_ZERO 3) (fun y =>
    forall n c t i k, 0 <= t < 2 -> 0 <= i < tH x -> 0 <= k < (tW x + L - 1)/2 ->
      tf y n (2*c+t) i k = F (tW x) t (fun q => tf x n c i q) k).
Proof.
  intros R Op Rth L h0 h1 HL.
  exists (fun W t line k => ana Op L (if t =? 0 then h0 else h1) (zx Op W line) k).
  intros x HN HH HC. pose proof (afb1d_zero_row Op Rth x L h0 h1 HL HN HH HC) as H.
  destruct (afb1d Op x L h0 h1 M_ZERO 3) as [y|]; [|contradiction]. cbn [is_ok] in *.
  destruct H as (_ & _ & _ & _ & H5). intros n c t i k Ht Hi Hk. rewrite H5 by lia.
  unfold hsel. replace ((2*c+t) mod 2) with t by lia. replace ((2*c+t)/2) with c by lia.
  unfold ana. apply sumZ_ext. intros b Hb. f_equal. unfold rowz, zx. rewrite (inr_true (tH x) i) by lia. reflexivity.
Qed.
Print Assumptions C07_slice_afb_zero.
