(* C07 - transforms are linear and act per (batch, channel) slice.  The normal forms (C01/C10/C13) state that entry
   (n, 2c+t, i, k) of the analysis model is F_t applied to the line x[n,c,i,:], with F_t not mentioning n, c, i or the
   batch/channel counts - that is the slice independence; linearity of F_t is proved here. *)
From PW Require Import Base.Ops Base.Sum Base.Sig Base.Tensor Model.Dwt Spec.Line Proofs.ConvLine Proofs.DwtNF Proofs.LineTheory Proofs.SfbNF Proofs.C01Proofs.

Theorem C07_ana_linear :
  forall (R:Type) (Op:Ops R) (Rth:RingOk Op) L (h e1 e2:Z->R) a b k,
  ana Op L h (fun q => radd Op (rmul Op a (e1 q)) (rmul Op b (e2 q))) k
  = radd Op (rmul Op a (ana Op L h e1 k)) (rmul Op b (ana Op L h e2 k)).
Proof. exact @ana_linear. Qed.
Print Assumptions C07_ana_linear.
Theorem C07_ana_per_linear :
  forall (R:Type) (Op:Ops R) (Rth:RingOk Op) L N (h e1 e2:Z->R) a b k,
  ana_per Op L N h (fun q => radd Op (rmul Op a (e1 q)) (rmul Op b (e2 q))) k
  = radd Op (rmul Op a (ana_per Op L N h e1 k)) (rmul Op b (ana_per Op L N h e2 k)).
Proof. exact @ana_per_linear. Qed.
Print Assumptions C07_ana_per_linear.
Theorem C07_syn_linear :
  forall (R:Type) (Op:Ops R) (Rth:RingOk Op) L n (g0 g1 lo1 hi1 lo2 hi2:Z->R) a b m,
  syn Op L n g0 g1 (fun k => radd Op (rmul Op a (lo1 k)) (rmul Op b (lo2 k))) (fun k => radd Op (rmul Op a (hi1 k)) (rmul Op b (hi2 k))) m
  = radd Op (rmul Op a (syn Op L n g0 g1 lo1 hi1 m)) (rmul Op b (syn Op L n g0 g1 lo2 hi2 m)).
Proof. exact @syn_linear. Qed.
Print Assumptions C07_syn_linear.
Theorem C07_syn_per_linear :
  forall (R:Type) (Op:Ops R) (Rth:RingOk Op) L n (g0 g1 lo1 hi1 lo2 hi2:Z->R) a b m,
  syn_per Op L n g0 g1 (fun k => radd Op (rmul Op a (lo1 k)) (rmul Op b (lo2 k))) (fun k => radd Op (rmul Op a (hi1 k)) (rmul Op b (hi2 k))) m
  = radd Op (rmul Op a (syn_per Op L n g0 g1 lo1 hi1 m)) (rmul Op b (syn_per Op L n g0 g1 lo2 hi2 m)).
Proof. exact @syn_per_linear. Qed.
Print Assumptions C07_syn_per_linear.

(* slice independence of the analysis model (row pass, zero mode shown; the other modes have the same shape of statement
   in C01_level_row): one operator for every (n, c, i), whatever N and C *)
Theorem C07_slice_afb_zero :
  forall (R:Type) (Op:Ops R) (Rth:RingOk Op) (L:Z) (h0 h1:Z->R), 2 <= L ->
  exists F : Z -> Z -> (Z -> R) -> Z -> R,      (* F width t line k *)
  forall (x:@ten R), 1 <= tW x -> 1 <= tH x -> 0 < tC x ->
  is_ok (afb1d Op x L h0 h1 M_ZERO 3) (fun y =>
    forall n c t i k, 0 <= t < 2 -> 0 <= i < tH x -> 0 <= k < (tW x + L - 1)/2 ->
      tf y n (2*c+t) i k = F (tW x) t (fun q => tf x n c i q) k).
Proof.
  intros R Op Rth L h0 h1 HL.
  exists (fun W t line k => ana Op L (if t =? 0 then h0 else h1) (zx Op W line) k).
  intros x HN HH HC. pose proof (afb1d_zero_row Op Rth x L h0 h1 HL HN HH HC) as H.
  destruct (afb1d Op x L h0 h1 M_ZERO 3) as [y|]; [|contradiction]. cbn [is_ok] in *.
  destruct H as (_ & _ & _ & _ & H5). intros n c t i k Ht Hi Hk. rewrite H5 by lia.
  unfold hsel. replace ((2*c+t) mod 2) with t by lia. replace ((2*c+t)/2) with c by lia.
  unfold ana. apply sumZ_ext. intros b Hb. f_equal. unfold rowz, zx. rewrite (inr_true (tH x) i) by lia. reflexivity.
Qed.
Print Assumptions C07_slice_afb_zero.

(* ==== the tensor-level model of the library code: every transform, every J ====
   L3 Op a b x1 x2 x3 : one shape and x3 = a x1 + b x2 at every index.  R3 rel r1 r2 r3 : all three results Ok and related, or all
   the same error (control flow depends on shapes only).  Lists/pairs/options are related componentwise (L3l, L3pl, L3o, F3, P3, O3). *)
From PW Require Import Model.Dtcwt Proofs.Linear Proofs.LinearDtcwt Proofs.Slice Proofs.SliceDtcwt.

Theorem C07_DWT1DForward_linear :
  forall (R:Type) (Op:Ops R) (Rth:RingOk Op) (a b:R) L h0 h1 mode (J:nat) x1 x2 x3, L3 Op a b x1 x2 x3 ->
  R3 (L3pl Op a b) (DWT1DForward Op J x1 L h0 h1 mode) (DWT1DForward Op J x2 L h0 h1 mode) (DWT1DForward Op J x3 L h0 h1 mode).
Proof. exact @DWT1DForward_lin. Qed.
Print Assumptions C07_DWT1DForward_linear.
Theorem C07_DWT1DInverse_linear :
  forall (R:Type) (Op:Ops R) (Rth:RingOk Op) (a b:R) L g0 g1 mode hs1 hs2 hs3 x1 x2 x3, L3o Op a b hs1 hs2 hs3 -> L3 Op a b x1 x2 x3 ->
  R3 (L3 Op a b) (DWT1DInverse Op x1 hs1 L g0 g1 mode) (DWT1DInverse Op x2 hs2 L g0 g1 mode) (DWT1DInverse Op x3 hs3 L g0 g1 mode).
Proof. exact @DWT1DInverse_lin. Qed.
Print Assumptions C07_DWT1DInverse_linear.
Theorem C07_DWTForward_linear :
  forall (R:Type) (Op:Ops R) (Rth:RingOk Op) (a b:R) Lr h0r h1r Lc h0c h1c mode (J:nat) x1 x2 x3, L3 Op a b x1 x2 x3 ->
  R3 (L3pl Op a b) (DWTForward Op J x1 Lr h0r h1r Lc h0c h1c mode) (DWTForward Op J x2 Lr h0r h1r Lc h0c h1c mode) (DWTForward Op J x3 Lr h0r h1r Lc h0c h1c mode).
Proof. exact @DWTForward_lin. Qed.
Print Assumptions C07_DWTForward_linear.
Theorem C07_DWTInverse_linear :
  forall (R:Type) (Op:Ops R) (Rth:RingOk Op) (a b:R) Lr g0r g1r Lc g0c g1c mode hs1 hs2 hs3 x1 x2 x3, L3o Op a b hs1 hs2 hs3 -> L3 Op a b x1 x2 x3 ->
  R3 (L3 Op a b) (DWTInverse Op x1 hs1 Lr g0r g1r Lc g0c g1c mode) (DWTInverse Op x2 hs2 Lr g0r g1r Lc g0c g1c mode) (DWTInverse Op x3 hs3 Lr g0r g1r Lc g0c g1c mode).
Proof. exact @DWTInverse_lin. Qed.
Print Assumptions C07_DWTInverse_linear.
Theorem C07_SWTForward_linear :
  forall (R:Type) (Op:Ops R) (Rth:RingOk Op) (a b:R) Lr h0r h1r Lc h0c h1c mode (J:nat) x1 x2 x3, L3 Op a b x1 x2 x3 ->
  R3 (L3l Op a b) (SWTForward Op J x1 Lr h0r h1r Lc h0c h1c mode) (SWTForward Op J x2 Lr h0r h1r Lc h0c h1c mode) (SWTForward Op J x3 Lr h0r h1r Lc h0c h1c mode).
Proof. exact @SWTForward_lin. Qed.
Print Assumptions C07_SWTForward_linear.
Theorem C07_DTCWTForward_linear :
  forall (R:Type) (Op:Ops R) (Rth:RingOk Op) (a b s:R) Lo0 h0o Lo1 h1o L0 h0a h0b L1 h1a h1b mode skips x1 x2 x3, L3 Op a b x1 x2 x3 ->
  R3 (F3 (P3 (L3 Op a b) (F3 (L3 Op a b))))
     (DTCWTForward Op s skips x1 Lo0 h0o Lo1 h1o L0 h0a h0b L1 h1a h1b mode) (DTCWTForward Op s skips x2 Lo0 h0o Lo1 h1o L0 h0a h0b L1 h1a h1b mode)
     (DTCWTForward Op s skips x3 Lo0 h0o Lo1 h1o L0 h0a h0b L1 h1a h1b mode).
Proof. exact @DTCWTForward_lin. Qed.
Print Assumptions C07_DTCWTForward_linear.
Theorem C07_DTCWTInverse_linear :
  forall (R:Type) (Op:Ops R) (Rth:RingOk Op) (a b s:R) Lo0 g0o Lo1 g1o L0 g0a g0b L1 g1a g1b mode ll1 ll2 ll3 hs1 hs2 hs3,
  O3 (L3 Op a b) ll1 ll2 ll3 -> F3 (F3 (L3 Op a b)) hs1 hs2 hs3 ->
  R3 (L3 Op a b) (DTCWTInverse Op s ll1 hs1 Lo0 g0o Lo1 g1o L0 g0a g0b L1 g1a g1b mode) (DTCWTInverse Op s ll2 hs2 Lo0 g0o Lo1 g1o L0 g0a g0b L1 g1a g1b mode)
                 (DTCWTInverse Op s ll3 hs3 Lo0 g0o Lo1 g1o L0 g0a g0b L1 g1a g1b mode).
Proof. exact @DTCWTInverse_lin. Qed.
Print Assumptions C07_DTCWTInverse_linear.
(* the relation is inhabited by the linear combination itself, and with a = b = 0 it says "zero in, zero out" *)
Theorem C07_lincomb_related :
  forall (R:Type) (Op:Ops R) (a b:R) (x1 x2:@ten R), shp x1 x2 -> L3 Op a b x1 x2 (lincomb Op a b x1 x2).
Proof. exact @L3_lincomb. Qed.
Print Assumptions C07_lincomb_related.
Theorem C07_zero_in :
  forall (R:Type) (Op:Ops R) (Rth:RingOk Op) (x z:@ten R), shp x z -> (forall n c i j, tf z n c i j = r0 Op) -> L3 Op (r0 Op) (r0 Op) x x z.
Proof. exact @L3_zero_intro. Qed.
Print Assumptions C07_zero_in.
Theorem C07_zero_out :
  forall (R:Type) (Op:Ops R) (Rth:RingOk Op) (x1 x2 x3:@ten R), L3 Op (r0 Op) (r0 Op) x1 x2 x3 -> forall n c i j, tf x3 n c i j = r0 Op.
Proof. exact @L3_zero_elim. Qed.
Print Assumptions C07_zero_out.

(* slice independence.  Sl N0 C n c m x xs : x is a batch of N0 items with m*C channels, xs ONE item with m channels, and
   xs[0, t] = x[n, m*c + t] for t < m (m = sub-bands per input channel).  slice1 n c x is the 1 x 1 x H x W tensor x[n, c]:
   the right-hand sides below are the transform of that single slice - an operator that cannot mention n, c, N0 or C. *)
Theorem C07_slice_is_related :
  forall (R:Type) (N0 C n c:Z) (x:@ten R), tN x = N0 -> tC x = C -> Sl N0 C n c 1 x (slice1 n c x).
Proof. exact @Sl_slice1. Qed.
Print Assumptions C07_slice_is_related.
Theorem C07_DWT1DForward_slice :
  forall (R:Type) (Op:Ops R) (N0 C n c:Z), 0 <= c < C -> forall L h0 h1 mode m (J:nat) x xs, Sl N0 C n c m x xs ->
  R2 (P2 (Sl N0 C n c m) (F2 (Sl N0 C n c m))) (DWT1DForward Op J x L h0 h1 mode) (DWT1DForward Op J xs L h0 h1 mode).
Proof. exact @DWT1DForward_sl. Qed.
Print Assumptions C07_DWT1DForward_slice.
Theorem C07_DWT1DInverse_slice :
  forall (R:Type) (Op:Ops R) (N0 C n c:Z) L g0 g1 mode m hs hss x xs, F2 (O2 (Sl N0 C n c m)) hs hss -> Sl N0 C n c m x xs ->
  R2 (Sl N0 C n c m) (DWT1DInverse Op x hs L g0 g1 mode) (DWT1DInverse Op xs hss L g0 g1 mode).
Proof. exact @DWT1DInverse_sl. Qed.
Print Assumptions C07_DWT1DInverse_slice.
Theorem C07_DWTForward_slice :
  forall (R:Type) (Op:Ops R) (N0 C n c:Z), 0 <= c < C -> forall Lr h0r h1r Lc h0c h1c mode m (J:nat) x xs, Sl N0 C n c m x xs ->
  R2 (P2 (Sl N0 C n c m) (F2 (Sl N0 C n c (3*m)))) (DWTForward Op J x Lr h0r h1r Lc h0c h1c mode) (DWTForward Op J xs Lr h0r h1r Lc h0c h1c mode).
Proof. exact @DWTForward_sl. Qed.
Print Assumptions C07_DWTForward_slice.
Theorem C07_DWTInverse_slice :
  forall (R:Type) (Op:Ops R) (N0 C n c:Z) Lr g0r g1r Lc g0c g1c mode m hs hss x xs, F2 (O2 (Sl N0 C n c (3*m))) hs hss -> Sl N0 C n c m x xs ->
  R2 (Sl N0 C n c m) (DWTInverse Op x hs Lr g0r g1r Lc g0c g1c mode) (DWTInverse Op xs hss Lr g0r g1r Lc g0c g1c mode).
Proof. exact @DWTInverse_sl. Qed.
Print Assumptions C07_DWTInverse_slice.
Theorem C07_SWTForward_slice :
  forall (R:Type) (Op:Ops R) (N0 C n c:Z), 0 <= c < C -> forall Lr h0r h1r Lc h0c h1c mode m (J:nat) x xs, Sl N0 C n c m x xs ->
  R2 (F2 (Sl N0 C n c (4*m))) (SWTForward Op J x Lr h0r h1r Lc h0c h1c mode) (SWTForward Op J xs Lr h0r h1r Lc h0c h1c mode).
Proof. exact @SWTForward_sl. Qed.
Print Assumptions C07_SWTForward_slice.
Theorem C07_DTCWTForward_slice :
  forall (R:Type) (Op:Ops R) (N0 C n c:Z) (s:R), 0 <= c < C -> forall Lo0 h0o Lo1 h1o L0 h0a h0b L1 h1a h1b mode m skips x xs, Sl N0 C n c m x xs ->
  R2 (F2 (P2 (Sl N0 C n c m) (F2 (Sl N0 C n c m))))
     (DTCWTForward Op s skips x Lo0 h0o Lo1 h1o L0 h0a h0b L1 h1a h1b mode) (DTCWTForward Op s skips xs Lo0 h0o Lo1 h1o L0 h0a h0b L1 h1a h1b mode).
Proof. exact @DTCWTForward_sl. Qed.
Print Assumptions C07_DTCWTForward_slice.
(* inverse: every band-pass level is absent (nil) or holds its 12 planes (6 orientations x re/im) *)
Theorem C07_DTCWTInverse_slice :
  forall (R:Type) (Op:Ops R) (N0 C n c:Z) (s:R), 0 <= c < C -> forall Lo0 g0o Lo1 g1o L0 g0a g0b L1 g1a g1b mode m ll lls hs hss,
  O2 (Sl N0 C n c m) ll lls -> F2 (fun h hs' => F2 (Sl N0 C n c m) h hs' /\ planes_ok h) hs hss ->
  R2 (Sl N0 C n c m) (DTCWTInverse Op s ll hs Lo0 g0o Lo1 g1o L0 g0a g0b L1 g1a g1b mode) (DTCWTInverse Op s lls hss Lo0 g0o Lo1 g1o L0 g0a g0b L1 g1a g1b mode).
Proof. exact @DTCWTInverse_sl. Qed.
Print Assumptions C07_DTCWTInverse_slice.
