(* C11 - DTCWT synthesis equals the reference inverse on arbitrary pyramids: colifilt and c2q. *)
From PW Require Import Base.Ops Base.Sum Base.Sig Base.Tensor Model.Dwt Model.Dtcwt Spec.Line Spec.DtcwtRef
  Proofs.DwtNF Proofs.SfbNF Proofs.DtcwtNF Proofs.DtcwtNFrow Proofs.QuadProofs Proofs.QshiftLevel Proofs.C11Absent.

(* colifilt, both parities of m/2 and both flags, for ANY input tensor *)
Theorem C11_colifilt :
  forall (R:Type) (Op:Ops R) (Rth:RingOk Op) (x:@ten R) (L:Z) (HA HB:Z->R) (hp:bool),
  2 <= L -> L mod 2 = 0 -> 2 <= tH x -> tH x mod 2 = 0 -> 1 <= tW x -> 0 < tC x ->
  is_ok (ifilt Op 2 x L (rev_filt L HA) (rev_filt L HB) hp)
    (col_spec x (2 * tH x) (fun n c i j => ref_colifilt Op L (tH x) HA HB (fun q => tf x n c q j) (negb hp) i)).
Proof. exact @ifilt_ref_col. Qed.
Print Assumptions C11_colifilt.

(* rowifilt: the same closed form along the last axis *)
Theorem C11_rowifilt :
  forall (R:Type) (Op:Ops R) (Rth:RingOk Op) (x:@ten R) (L:Z) (HA HB:Z->R) (hp:bool),
  2 <= L -> L mod 2 = 0 -> 2 <= tW x -> tW x mod 2 = 0 -> 1 <= tH x -> 0 < tC x ->
  is_ok (ifilt Op 3 x L (rev_filt L HA) (rev_filt L HB) hp)
    (row_spec x (2 * tW x) (fun n c i j => ref_colifilt Op L (tW x) HA HB (fun q => tf x n c i q) (negb hp) j)).
Proof. exact @ifilt_ref_row. Qed.
Print Assumptions C11_rowifilt.

(* colfilter is shared with the forward transform *)
Theorem C11_colfilter :
  forall (R:Type) (Op:Ops R) (Rth:RingOk Op) (x:@ten R) (L:Z) (hh:Z->R),
  1 <= L -> L mod 2 = 1 -> 1 <= tH x -> 1 <= tW x -> 0 < tC x ->
  is_ok (linefilter Op 2 x L (rev_filt L hh) M_SYMM)
    (col_spec x (tH x) (fun n c i j => ref_colfilter Op L (tH x) hh (fun q => tf x n c q j) i)).
Proof. exact @linefilter_ref_col. Qed.
Print Assumptions C11_colfilter.

Theorem C11_c2q :
  forall (R:Type) (Op:Ops R) (Rth:RingOk Op) (s:R) (w1r w1i w2r w2i:@ten R) n c i j,
  let q := c2q Op s w1r w1i w2r w2i in
  tf q n c (2*i) (2*j) = rmul Op s (radd Op (tf w1r n c i j) (tf w2r n c i j)) /\
  tf q n c (2*i) (2*j+1) = rmul Op s (radd Op (tf w1i n c i j) (tf w2i n c i j)) /\
  tf q n c (2*i+1) (2*j) = rmul Op s (rsub Op (tf w1i n c i j) (tf w2i n c i j)) /\
  tf q n c (2*i+1) (2*j+1) = rmul Op s (radd Op (ropp Op (tf w1r n c i j)) (tf w2r n c i j)).
Proof. intros R Op Rth s w1r w1i w2r w2i n c i j. exact (c2q_values Op s w1r w1i w2r w2i n c i j). Qed.
Print Assumptions C11_c2q.

(* ---- absent inputs of one q-shift level are zeros (same_on A B: B has the shape of A and equals it on the extent) ---- *)
(* lowpass absent (None) = a lowpass of zeros of the size the level expects (that of the highpass quads) *)
Theorem C11_absent_lowpass :
  forall (R:Type) (Op:Ops R) (Rth:RingOk Op) (s:R) (hs:list (@ten R)) (Z0:@ten R) L (G0A G0B G1A G1B:Z->R),
  2 <= L -> L mod 2 = 0 -> length hs = 12%nat ->
  let '(lh, hl, hh) := orientations_to_highs Op s hs in
  2 <= tH lh -> tH lh mod 2 = 0 -> 2 <= tW lh -> tW lh mod 2 = 0 -> 0 < tC lh ->
  same_shape lh hl = true -> same_shape lh hh = true -> same_shape lh Z0 = true ->
  (forall n c i j, tf Z0 n c i j = r0 Op) ->
  is_ok (inv_j2plus Op s None hs L (rev_filt L G0B) (rev_filt L G0A) L (rev_filt L G1B) (rev_filt L G1A)) (fun y0 =>
  is_ok (inv_j2plus Op s (Some Z0) hs L (rev_filt L G0B) (rev_filt L G0A) L (rev_filt L G1B) (rev_filt L G1A)) (fun y1 => same_on y0 y1)).
Proof. exact @inv_j2plus_none_low. Qed.
Print Assumptions C11_absent_lowpass.
(* highpass level absent (no planes) = twelve planes of zeros of half the lowpass size *)
Theorem C11_absent_highs :
  forall (R:Type) (Op:Ops R) (Rth:RingOk Op) (s:R) (l zp:@ten R) L (G0A G0B G1A G1B:Z->R),
  2 <= L -> L mod 2 = 0 -> 2 <= tH l -> tH l mod 2 = 0 -> 2 <= tW l -> tW l mod 2 = 0 -> 0 < tC l ->
  tN zp = tN l -> tC zp = tC l -> 2 * tH zp = tH l -> 2 * tW zp = tW l -> (forall n c i j, tf zp n c i j = r0 Op) ->
  is_ok (inv_j2plus Op s (Some l) nil L (rev_filt L G0B) (rev_filt L G0A) L (rev_filt L G1B) (rev_filt L G1A)) (fun y0 =>
  is_ok (inv_j2plus Op s (Some l) [zp;zp;zp;zp;zp;zp;zp;zp;zp;zp;zp;zp] L (rev_filt L G0B) (rev_filt L G0A) L (rev_filt L G1B) (rev_filt L G1A)) (fun y1 =>
    same_on y0 y1)).
Proof. exact @inv_j2plus_none_highs. Qed.
Print Assumptions C11_absent_highs.

