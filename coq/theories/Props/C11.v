(* C11 - DTCWT synthesis equals the reference inverse on arbitrary pyramids: colifilt and c2q. *)
From PW Require Import Base.Ops Base.Sum Base.Sig Base.Tensor Model.Dwt Model.Dtcwt Spec.Line Spec.DtcwtRef
  Proofs.DwtNF Proofs.DtcwtNF Proofs.DtcwtNFrow Proofs.QuadProofs.

(* colifilt, both parities of m/2 and both flags, for ANY input tensor *)
Theorem C11_colifilt :
  forall (R:Type) (Op:Ops R) (Rth:RingOk Op) (x:@ten R) (L:Z) (HA HB:Z->R) (hp:bool),
  2 <= L -> L mod 2 = 0 -> 2 <= tH x -> tH x mod 2 = 0 -> 1 <= tW x -> 0 < tC x ->
  is_ok (ifilt Op 2 x L (rev_filt L HA) (rev_filt L HB) hp)
    (col_spec x (2 * tH x) (fun n c i j => ref_colifilt Op L (tH x) HA HB (fun q => tf x n c q j) (negb hp) i)).
Proof. exact @ifilt_ref_col. Qed.
Print Assumptions C11_colifilt.

(* rowifilt: the same closed form along the last axis *)
Theorem C11_rowifilt :
  forall (R:Type) (Op:Ops R) (Rth:RingOk Op) (x:@ten R) (L:Z) (HA HB:Z->R) (hp:bool),
  2 <= L -> L mod 2 = 0 -> 2 <= tW x -> tW x mod 2 = 0 -> 1 <= tH x -> 0 < tC x ->
  is_ok (ifilt Op 3 x L (rev_filt L HA) (rev_filt L HB) hp)
    (row_spec x (2 * tW x) (fun n c i j => ref_colifilt Op L (tW x) HA HB (fun q => tf x n c i q) (negb hp) j)).
Proof. exact @ifilt_ref_row. Qed.
Print Assumptions C11_rowifilt.

(* colfilter is shared with the forward transform *)
Theorem C11_colfilter :
  forall (R:Type) (Op:Ops R) (Rth:RingOk Op) (x:@ten R) (L:Z) (hh:Z->R),
  1 <= L -> L mod 2 = 1 -> 1 <= tH x -> 1 <= tW x -> 0 < tC x ->
  is_ok (linefilter Op 2 x L (rev_filt L hh) M_SYMM)
    (col_spec x (tH x) (fun n c i j => ref_colfilter Op L (tH x) hh (fun q => tf x n c q j) i)).
Proof. exact @linefilter_ref_col. Qed.
Print Assumptions C11_colfilter.

Theorem C11_c2q :
  forall (R:Type) (Op:Ops R) (Rth:RingOk Op) (s:R) (w1r w1i w2r w2i:@ten R) n c i j,
  let q := c2q Op s w1r w1i w2r w2i in
  tf q n c (2*i) (2*j) = rmul Op s (radd Op (tf w1r n c i j) (tf w2r n c i j)) /\
  tf q n c (2*i) (2*j+1) = rmul Op s (radd Op (tf w1i n c i j) (tf w2i n c i j)) /\
  tf q n c (2*i+1) (2*j) = rmul Op s (rsub Op (tf w1i n c i j) (tf w2i n c i j)) /\
  tf q n c (2*i+1) (2*j+1) = rmul Op s (radd Op (ropp Op (tf w1r n c i j)) (tf w2r n c i j)).
Proof. intros R Op Rth s w1r w1i w2r w2i n c i j. exact (c2q_values Op s w1r w1i w2r w2i n c i j). Qed.
Print Assumptions C11_c2q.
