(* C03 - DTCWT analysis equals the reference: the column filters of the model equal the reference package's closed forms
   (Spec/DtcwtRef.v, tied to dtcwt.numpy.lowlevel by correspondence B) for every size and filter. *)
From PW Require Import Base.Ops Base.Sum Base.Sig Base.Tensor Model.Dwt Model.Dtcwt Spec.Line Spec.DtcwtRef
  Proofs.DwtNF Proofs.DtcwtNF Proofs.DtcwtNFrow Proofs.QuadProofs.

(* level 1: colfilter (odd length, symmetric extension) *)
Theorem C03_colfilter :
  forall (R:Type) (Op:Ops R) (Rth:RingOk Op) (x:@ten R) (L:Z) (hh:Z->R),
  1 <= L -> L mod 2 = 1 -> 1 <= tH x -> 1 <= tW x -> 0 < tC x ->
  is_ok (linefilter Op 2 x L (rev_filt L hh) M_SYMM)
    (col_spec x (tH x) (fun n c i j => ref_colfilter Op L (tH x) hh (fun q => tf x n c q j) i)).
Proof. exact @linefilter_ref_col. Qed.
Print Assumptions C03_colfilter.

(* levels >= 2: coldfilt (even length, rows a multiple of 4); the model's highpass flag is the reference's sign branch *)
Theorem C03_coldfilt :
  forall (R:Type) (Op:Ops R) (Rth:RingOk Op) (x:@ten R) (L:Z) (HA HB:Z->R) (hp:bool),
  2 <= L -> 4 <= tH x -> tH x mod 4 = 0 -> 1 <= tW x -> 0 < tC x ->
  is_ok (dfilt Op 2 x L (rev_filt L HA) (rev_filt L HB) hp)
    (col_spec x (tH x / 2) (fun n c i j => ref_coldfilt Op L (tH x) HA HB (fun q => tf x n c q j) (negb hp) i)).
Proof. exact @dfilt_ref_col. Qed.
Print Assumptions C03_coldfilt.

(* the row twins (rowfilter, rowdfilt): the same closed forms along the last axis *)
Theorem C03_rowfilter :
  forall (R:Type) (Op:Ops R) (Rth:RingOk Op) (x:@ten R) (L:Z) (hh:Z->R),
  1 <= L -> L mod 2 = 1 -> 1 <= tH x -> 1 <= tW x -> 0 < tC x ->
  is_ok (linefilter Op 3 x L (rev_filt L hh) M_SYMM)
    (row_spec x (tW x) (fun n c i j => ref_colfilter Op L (tW x) hh (fun q => tf x n c i q) j)).
Proof. exact @linefilter_ref_row. Qed.
Print Assumptions C03_rowfilter.
Theorem C03_rowdfilt :
  forall (R:Type) (Op:Ops R) (Rth:RingOk Op) (x:@ten R) (L:Z) (HA HB:Z->R) (hp:bool),
  2 <= L -> 4 <= tW x -> tW x mod 4 = 0 -> 1 <= tH x -> 0 < tC x ->
  is_ok (dfilt Op 3 x L (rev_filt L HA) (rev_filt L HB) hp)
    (row_spec x (tW x / 2) (fun n c i j => ref_coldfilt Op L (tW x) HA HB (fun q => tf x n c i q) (negb hp) j)).
Proof. exact @dfilt_ref_row. Qed.
Print Assumptions C03_rowdfilt.

(* q2c: the four complex planes in terms of the quad of the input (the reference's q2c formulas with s = 1/sqrt 2) *)
Theorem C03_q2c :
  forall (R:Type) (Op:Ops R) (Rth:RingOk Op) (s:R) (y:@ten R) n c i j,
  let '((z1r, z1i), (z2r, z2i)) := q2c Op s y in
  tf z1r n c i j = rsub Op (rmul Op s (tf y n c (2*i) (2*j))) (rmul Op s (tf y n c (2*i+1) (2*j+1))) /\
  tf z1i n c i j = radd Op (rmul Op s (tf y n c (2*i) (2*j+1))) (rmul Op s (tf y n c (2*i+1) (2*j))) /\
  tf z2r n c i j = radd Op (rmul Op s (tf y n c (2*i) (2*j))) (rmul Op s (tf y n c (2*i+1) (2*j+1))) /\
  tf z2i n c i j = rsub Op (rmul Op s (tf y n c (2*i) (2*j+1))) (rmul Op s (tf y n c (2*i+1) (2*j))).
Proof. intros R Op Rth s y n c i j. exact (q2c_values Op s y n c i j). Qed.
Print Assumptions C03_q2c.
