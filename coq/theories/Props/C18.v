(* C18 - shipped DTCWT filter tables satisfy the identities the code relies on (tables regenerated from the .npz bytes). *)
From Coq Require Import ZArith List Bool String.
From PW Require Import Gen.Tables Proofs.TablesProofs.
Import ListNotations.
Open Scope string_scope.

Theorem C18_tables :
  all_fit = true /\ eq_reference = true /\ level1_symmetric = true /\ level1_PR = true /\
  qshift_revpair = true /\ qshift_syn_rev_ana = true /\ qshift_orthonormal = true /\ qshift_signs = true /\
  loader_names_present = true.
Proof. exact tables_ok. Qed.
Print Assumptions C18_tables.

Theorem C18_load_twice : forall file c n, snd (load file (fst (load file c n)) n) = snd (load file c n).
Proof. exact load_twice. Qed.
Print Assumptions C18_load_twice.
Theorem C18_cache_monotone : forall file c n m v, cfind c m = Some v -> cfind (fst (load file c n)) m = Some v.
Proof. exact load_preserves. Qed.
Print Assumptions C18_cache_monotone.

(* non-vacuity: the classifiers fire on the shipped names, and the checks do reject a perturbed table *)
Example C18_nonvacuous :
  is_level1 "antonini" = true /\ is_level1 "near_sym_b_bp" = true /\ is_qshift "qshift_b_bp" = true /\ is_qshift "legall" = false /\
  List.length names = 14%nat /\
  symmetric (tol1 47) (vec [(1,0);(3,0);(2,0)]%Z) = false /\
  ortho_pair 44 (vec [(1,0);(1,0)]%Z) (vec [(1,0);((-1),0)]%Z) = false /\
  ortho_pair 44 (vec [(1,0);(0,0)]%Z) (vec [(0,0);(1,0)]%Z) = true.
Proof. vm_compute. repeat split. Qed.
