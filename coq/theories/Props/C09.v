(* C09 - scattering layers back-propagate the true gradient, finite everywhere (partial: the multivariate chain rule
   that composes the stage derivatives is the standard mathematical step not re-proved here). *)
From Coq Require Import Reals.
From Coquelicot Require Import Coquelicot.
From PW Require Import Base.Ops Base.Sum Base.Sig Base.Tensor Model.Dwt Model.Dtcwt Model.Scat Proofs.ScatProofs Proofs.SmagReal.
Local Open Scope Z_scope.

(* the saved factors re/r, im/r ARE the partial derivatives of the smooth magnitude *)
Theorem C09_smag_dx : forall b x y : R, b <> 0%R -> is_derive (fun t => smagR b t y) x (x / sqrt (x*x+y*y+b*b))%R.
Proof. exact smag_dx. Qed.
Print Assumptions C09_smag_dx.
Theorem C09_smag_dy : forall b x y : R, b <> 0%R -> is_derive (fun t => smagR b x t) y (y / sqrt (x*x+y*y+b*b))%R.
Proof. exact smag_dy. Qed.
Print Assumptions C09_smag_dy.
Theorem C09_smag3_dx : forall b x1 y1 x2 y2 x3 y3 : R, b <> 0%R ->
  is_derive (fun t => smag3R b t y1 x2 y2 x3 y3) x1 (x1 / sqrt (x1*x1 + y1*y1 + x2*x2 + y2*y2 + x3*x3 + y3*y3 + b*b))%R.
Proof. exact smag3_dx1. Qed.
Print Assumptions C09_smag3_dx.
(* with a non-zero bias they are bounded by 1 for EVERY input, the all-zero image included (where they are 0) *)
Theorem C09_finite : forall b x y : R, b <> 0%R -> (Rabs (x / sqrt (x*x+y*y+b*b)) <= 1)%R /\ (Rabs (y / sqrt (x*x+y*y+b*b)) <= 1)%R.
Proof. intros b x y Hb. split; [apply grad_bounded | apply grad_bounded_y]; assumption. Qed.
Print Assumptions C09_finite.
Theorem C09_zero_image : forall b : R, b <> 0%R -> (0 / sqrt (0*0+0*0+b*b) = 0)%R.
Proof. exact grad_zero_image. Qed.
Print Assumptions C09_zero_image.
(* the pooling stage: 1/4 * nearest upsampling is the adjoint of avg_pool2d(.,2) *)
Theorem C09_avgpool_adjoint :
  forall (T:Type) (Op:Ops T) (Rth:RingOk Op) (X:XOps T) (x g:@ten T) n c i j,
  rmul Op (tf (avgpool2 Op X x) n c i j) (tf g n c i j)
  = radd Op (radd Op (radd Op (rmul Op (tf x n c (2*i) (2*j)) (tf (up2q Op X g) n c (2*i) (2*j)))
                              (rmul Op (tf x n c (2*i) (2*j+1)) (tf (up2q Op X g) n c (2*i) (2*j+1))))
                     (rmul Op (tf x n c (2*i+1) (2*j)) (tf (up2q Op X g) n c (2*i+1) (2*j))))
            (rmul Op (tf x n c (2*i+1) (2*j+1)) (tf (up2q Op X g) n c (2*i+1) (2*j+1))).
Proof. intros T Op Rth X x g n c i j. exact (avgpool_up_adjoint Op Rth X x g n c i j). Qed.
Print Assumptions C09_avgpool_adjoint.
