(* C09 - scattering layers back-propagate the true gradient, finite everywhere (partial: the multivariate chain rule
   that composes the stage derivatives is the standard mathematical step not re-proved here). *)
From Coq Require Import Reals.
From Coquelicot Require Import Coquelicot.
From PW Require Import Base.Ops Base.Sum Base.Sig Base.Tensor Model.Dwt Model.Dtcwt Model.Scat Proofs.DwtNF Proofs.ScatProofs Proofs.SmagReal Proofs.SymExt Proofs.DtcwtAdj2D Proofs.ScatVJP.
Local Open Scope Z_scope.

(* the saved factors re/r, im/r ARE the partial derivatives of the smooth magnitude *)
Theorem C09_smag_dx : forall b x y : R, b <> 0%R -> is_derive (fun t => smagR b t y) x (x / sqrt (x*x+y*y+b*b))%R.
Proof. exact smag_dx. Qed.
Print Assumptions C09_smag_dx.
Theorem C09_smag_dy : forall b x y : R, b <> 0%R -> is_derive (fun t => smagR b x t) y (y / sqrt (x*x+y*y+b*b))%R.
Proof. exact smag_dy. Qed.
Print Assumptions C09_smag_dy.
Theorem C09_smag3_dx : forall b x1 y1 x2 y2 x3 y3 : R, b <> 0%R ->
  is_derive (fun t => smag3R b t y1 x2 y2 x3 y3) x1 (x1 / sqrt (x1*x1 + y1*y1 + x2*x2 + y2*y2 + x3*x3 + y3*y3 + b*b))%R.
Proof. exact smag3_dx1. Qed.
Print Assumptions C09_smag3_dx.
(* with a non-zero bias they are bounded by 1 for EVERY input, the all-zero image included (where they are 0) *)
Theorem C09_finite : forall b x y : R, b <> 0%R -> (Rabs (x / sqrt (x*x+y*y+b*b)) <= 1)%R /\ (Rabs (y / sqrt (x*x+y*y+b*b)) <= 1)%R.
Proof. intros b x y Hb. split; [apply grad_bounded | apply grad_bounded_y]; assumption. Qed.
Print Assumptions C09_finite.
Theorem C09_zero_image : forall b : R, b <> 0%R -> (0 / sqrt (0*0+0*0+b*b) = 0)%R.
Proof. exact grad_zero_image. Qed.
Print Assumptions C09_zero_image.
(* the pooling stage: 1/4 * nearest upsampling is the adjoint of avg_pool2d(.,2) *)
Theorem C09_avgpool_adjoint :
  forall (T:Type) (Op:Ops T) (Rth:RingOk Op) (X:XOps T) (x g:@ten T) n c i j,
  rmul Op (tf (avgpool2 Op X x) n c i j) (tf g n c i j)
  = radd Op (radd Op (radd Op (rmul Op (tf x n c (2*i) (2*j)) (tf (up2q Op X g) n c (2*i) (2*j)))
                              (rmul Op (tf x n c (2*i) (2*j+1)) (tf (up2q Op X g) n c (2*i) (2*j+1))))
                     (rmul Op (tf x n c (2*i+1) (2*j)) (tf (up2q Op X g) n c (2*i+1) (2*j))))
            (rmul Op (tf x n c (2*i+1) (2*j+1)) (tf (up2q Op X g) n c (2*i+1) (2*j+1))).
Proof. intros T Op Rth X x g n c i j. exact (avgpool_up_adjoint Op Rth X x g n c i j). Qed.
Print Assumptions C09_avgpool_adjoint.

(* the whole backward pass of the first-order layer (greyscale, plain filter family), on the model: it is the adjoint of the
   linearisation of the forward pass.  For every input x, direction h and cotangent dZ (channels [0,C): pooled lowpass, C + o*C + c:
   orientation o of channel c):
     < avgpool(ll(h)), dZ_low > + sum_o < re_o(h), dZ_o * re_o(x)/r_o(x) > + < im_o(h), dZ_o * im_o(x)/r_o(x) >  =  < h, backward(x, dZ) >
   with (ll, re_o, im_o) the level-1 DTCWT and r_o = sqrt(re_o^2 + im_o^2 + b^2); cot_planes / phases are the model's own definitions of
   dZ_o * phase (C09_smag_dx/dy: the phases are the partial derivatives of the smooth magnitude).  Any ring where 2 cancels. *)
Theorem C09_scat_j1_vjp :
  forall (T:Type) (Op:Ops T) (Rth:RingOk Op) (X:XOps T)
  (b:T) (L0 L1:Z) (h0 h1:Z->T), 1 <= L0 /\ L0 mod 2 = 1 -> 1 <= L1 /\ L1 mod 2 = 1 -> Symmetric L0 h0 -> Symmetric L1 h1 ->
  (forall a c:T, rmul Op (radd Op (r1 Op) (r1 Op)) a = rmul Op (radd Op (r1 Op) (r1 Op)) c -> a = c) ->
  forall (x h dZ:@ten T), 2 <= tH x -> tH x mod 2 = 0 -> 2 <= tW x -> tW x mod 2 = 0 -> 0 < tC x ->
  tN h = tN x -> tC h = tC x -> tH h = tH x -> tW h = tW x ->
  tN dZ = tN x -> tC dZ = 7 * tC x -> tH dZ = tH x / 2 -> tW dZ = tW x / 2 ->
  let C := tC x in let H2 := tH x / 2 in let W2 := tW x / 2 in
  let dYl := force Op (t_chmap C (fun c => c) dZ) in
  let dr := force Op (t_chmap (tC dZ - C) (fun c => C + c) dZ) in
  is_ok (fwd_j1 Op (xs_ X) x L0 h0 L1 h1 false M_SYMM) (fun rx =>
  let cot := cot_planes Op false C dr (phases Op X b false C (snd rx)) in
  is_ok (fwd_j1 Op (xs_ X) h L0 h0 L1 h1 false M_SYMM) (fun rh =>
  is_ok (scat_j1_bwd Op X b false false x dZ L0 h0 L1 h1 L1 h1 M_SYMM) (fun dx =>
    shaped x (tH x) (tW x) dx /\
    forall n c, 0 <= c < C ->
      radd Op (radd Op (radd Op (dot2 Op H2 W2 (avgpool2 Op X (fst rh)) dYl n c)
        (radd Op (radd Op (radd Op (dot2 Op H2 W2 (pl Op (snd rh) 0 0) (pl Op cot 0 0) n c) (dot2 Op H2 W2 (pl Op (snd rh) 0 1) (pl Op cot 0 1) n c))
                          (dot2 Op H2 W2 (pl Op (snd rh) 5 0) (pl Op cot 5 0) n c)) (dot2 Op H2 W2 (pl Op (snd rh) 5 1) (pl Op cot 5 1) n c)))
        (radd Op (radd Op (radd Op (dot2 Op H2 W2 (pl Op (snd rh) 2 0) (pl Op cot 2 0) n c) (dot2 Op H2 W2 (pl Op (snd rh) 2 1) (pl Op cot 2 1) n c))
                          (dot2 Op H2 W2 (pl Op (snd rh) 3 0) (pl Op cot 3 0) n c)) (dot2 Op H2 W2 (pl Op (snd rh) 3 1) (pl Op cot 3 1) n c)))
        (radd Op (radd Op (radd Op (dot2 Op H2 W2 (pl Op (snd rh) 1 0) (pl Op cot 1 0) n c) (dot2 Op H2 W2 (pl Op (snd rh) 1 1) (pl Op cot 1 1) n c))
                          (dot2 Op H2 W2 (pl Op (snd rh) 4 0) (pl Op cot 4 0) n c)) (dot2 Op H2 W2 (pl Op (snd rh) 4 1) (pl Op cot 4 1) n c))
      = dot2 Op (tH x) (tW x) h dx n c))).
Proof. exact @scat_j1_vjp. Qed.
Print Assumptions C09_scat_j1_vjp.
(* what the cotangent planes are: dZ_o times the saved phase *)
Theorem C09_cot_plane :
  forall (T:Type) (Op:Ops T) (C:Z) (dr:@ten T) (ph:list (@ten T)) o ri, 0 <= o < 6 -> 0 <= ri < 2 ->
  let a := pl Op ph o 0 in
  pl Op (cot_planes Op false C dr ph) o ri
  = force Op (mkT (tN a) (tC a) (tH a) (tW a) (fun n c i j => rmul Op (tf dr n (o*C + c) i j) (tf (pl Op ph o ri) n c i j))).
Proof. intros T Op C dr ph o ri Ho Hri. exact (cot_nth Op C dr ph o ri Ho Hri). Qed.
Print Assumptions C09_cot_plane.


(* the same for EITHER colour mode (combine_colour: one magnitude over the three colour channels, cotangent broadcast over them; the input then
   has 3 channels): the whole backward pass of the first-order layer is the adjoint of the phase-weighted linearisation *)
Theorem C09_scat_j1_vjp_colour :
  forall (T:Type) (Op:Ops T) (Rth:RingOk Op) (X:XOps T)
  (b:T) (L0 L1:Z) (h0 h1:Z->T), 1 <= L0 /\ L0 mod 2 = 1 -> 1 <= L1 /\ L1 mod 2 = 1 -> Symmetric L0 h0 -> Symmetric L1 h1 ->
  (forall a c:T, rmul Op (radd Op (r1 Op) (r1 Op)) a = rmul Op (radd Op (r1 Op) (r1 Op)) c -> a = c) ->
  forall (colour:bool) (x h dZ:@ten T), (colour = true -> tC x = 3) -> 2 <= tH x -> tH x mod 2 = 0 -> 2 <= tW x -> tW x mod 2 = 0 -> 0 < tC x ->
  tN h = tN x -> tC h = tC x -> tH h = tH x -> tW h = tW x ->
  tN dZ = tN x -> tH dZ = tH x / 2 -> tW dZ = tW x / 2 ->
  let C := tC x in let H2 := tH x / 2 in let W2 := tW x / 2 in
  let nl := if colour then 3 else C in
  let dYl := force Op (t_chmap nl (fun c => c) dZ) in
  let dr := force Op (t_chmap (tC dZ - nl) (fun c => nl + c) dZ) in
  is_ok (fwd_j1 Op (xs_ X) x L0 h0 L1 h1 false M_SYMM) (fun rx =>
  let cot := cot_planes Op colour C dr (phases Op X b colour C (snd rx)) in
  is_ok (fwd_j1 Op (xs_ X) h L0 h0 L1 h1 false M_SYMM) (fun rh =>
  is_ok (scat_j1_bwd Op X b false colour x dZ L0 h0 L1 h1 L1 h1 M_SYMM) (fun dx =>
    shaped x (tH x) (tW x) dx /\
    forall n c, 0 <= c < C ->
      radd Op (radd Op (radd Op (dot2 Op H2 W2 (avgpool2 Op X (fst rh)) dYl n c)
        (radd Op (radd Op (radd Op (dot2 Op H2 W2 (pl Op (snd rh) 0 0) (pl Op cot 0 0) n c) (dot2 Op H2 W2 (pl Op (snd rh) 0 1) (pl Op cot 0 1) n c))
                          (dot2 Op H2 W2 (pl Op (snd rh) 5 0) (pl Op cot 5 0) n c)) (dot2 Op H2 W2 (pl Op (snd rh) 5 1) (pl Op cot 5 1) n c)))
        (radd Op (radd Op (radd Op (dot2 Op H2 W2 (pl Op (snd rh) 2 0) (pl Op cot 2 0) n c) (dot2 Op H2 W2 (pl Op (snd rh) 2 1) (pl Op cot 2 1) n c))
                          (dot2 Op H2 W2 (pl Op (snd rh) 3 0) (pl Op cot 3 0) n c)) (dot2 Op H2 W2 (pl Op (snd rh) 3 1) (pl Op cot 3 1) n c)))
        (radd Op (radd Op (radd Op (dot2 Op H2 W2 (pl Op (snd rh) 1 0) (pl Op cot 1 0) n c) (dot2 Op H2 W2 (pl Op (snd rh) 1 1) (pl Op cot 1 1) n c))
                          (dot2 Op H2 W2 (pl Op (snd rh) 4 0) (pl Op cot 4 0) n c)) (dot2 Op H2 W2 (pl Op (snd rh) 4 1) (pl Op cot 4 1) n c))
      = dot2 Op (tH x) (tW x) h dx n c))).
Proof. exact @scat_j1_vjp_gen. Qed.
Print Assumptions C09_scat_j1_vjp_colour.

(* ---- the SECOND-ORDER layer (greyscale, plain family) ----
   forward at x:  (s0,p1) = J1(x);  s1 = |p1|;  (s0b,p2) = J2(s0);  (l3,p3) = J1(s1)  -> output [avgpool s0b | avgpool l3 | |p2| | |p3|]
   linearisation in direction h with the phases saved at x:  (s0',p1') = J1(h);  s1' = linmag(phases p1; p1');  (s0b',p2') = J2(s0');  (l3',p3') = J1(s1').
   dot12 pairs twelve planes with twelve cotangent planes; cot2/cot3 are dZ times the saved phases (C09_cot_plane).  The forward values enter as
   equations (the level functions are total on these sizes: C03/C04 level theorems); the statement is about the backward pass. *)
From PW Require Import Spec.Line Base.Sum Proofs.ScatVJP2.
Theorem C09_scat_j2_vjp :
  forall (T:Type) (Op:Ops T) (Rth:RingOk Op) (X:XOps T) (b:T) (L0 L1:Z) (h0 h1:Z->T),
  1 <= L0 /\ L0 mod 2 = 1 -> 1 <= L1 /\ L1 mod 2 = 1 -> Symmetric L0 h0 -> Symmetric L1 h1 ->
  forall (L:Z) (H0A H0B H1A H1B:Z->T), 2 <= L /\ L mod 2 = 0 ->
  (forall j, 0 <= j < L -> H0B j = H0A (L-1-j)) -> (forall j, 0 <= j < L -> H1B j = H1A (L-1-j)) ->
  (forall a c:T, rmul Op (radd Op (r1 Op) (r1 Op)) a = rmul Op (radd Op (r1 Op) (r1 Op)) c -> a = c) ->
  forall (x h dZ s0 s0b l3 s0' s0b' l3':@ten T) (p1 p2 p3 p1' p2' p3':list (@ten T)),
  8 <= tH x -> tH x mod 8 = 0 -> 8 <= tW x -> tW x mod 8 = 0 -> 0 < tC x ->
  tN h = tN x -> tC h = tC x -> tH h = tH x -> tW h = tW x ->
  tN dZ = tN x -> tC dZ = 49 * tC x -> tH dZ = tH x / 4 -> tW dZ = tW x / 4 ->
  fwd_j1 Op (xs_ X) x L0 h0 L1 h1 false M_SYMM = Ok (s0, p1) ->
  fwd_j2plus Op (xs_ X) s0 L (rev_filt L H0B) (rev_filt L H0A) L (rev_filt L H1B) (rev_filt L H1A) false = Ok (s0b, p2) ->
  fwd_j1 Op (xs_ X) (force Op (mags Op X b (tC x) p1)) L0 h0 L1 h1 false M_SYMM = Ok (l3, p3) ->
  fwd_j1 Op (xs_ X) h L0 h0 L1 h1 false M_SYMM = Ok (s0', p1') ->
  fwd_j2plus Op (xs_ X) s0' L (rev_filt L H0B) (rev_filt L H0A) L (rev_filt L H1B) (rev_filt L H1A) false = Ok (s0b', p2') ->
  fwd_j1 Op (xs_ X) (linmag Op (tC x) (phases Op X b false (tC x) p1) p1') L0 h0 L1 h1 false M_SYMM = Ok (l3', p3') ->
  let C := tC x in let H4 := tH x / 4 in let W4 := tW x / 4 in
  let ds0 := force Op (t_chmap C (fun c => c) dZ) in
  let ds1_j1 := force Op (t_chmap (6 * C) (fun c => C + c) dZ) in
  let ds1_j2 := force Op (t_chmap (6 * C) (fun c => C + 6 * C + c) dZ) in
  let ds2_j1 := force Op (t_chmap (6 * (6 * C)) (fun c => C + 2 * (6 * C) + c) dZ) in
  let cot2 := cot_planes Op false C ds1_j2 (phases Op X b false C p2) in
  let cot3 := cot_planes Op false (6 * C) ds2_j1 (phases Op X b false (6 * C) p3) in
  is_ok (scat_j2_bwd Op X b false false x dZ L0 h0 L1 h1 L1 h1 L (rev_filt L H0B) (rev_filt L H0A) L (rev_filt L H1B) (rev_filt L H1A) L (rev_filt L H1B) (rev_filt L H1A) M_SYMM) (fun dx =>
    shaped x (tH x) (tW x) dx /\
    forall n c, 0 <= c < C ->
      radd Op (radd Op (dot2 Op H4 W4 (avgpool2 Op X s0b') ds0 n c) (dot12 Op H4 W4 p2' cot2 n c))
        (sumZ Op 0 6 (fun o => radd Op (dot2 Op H4 W4 (avgpool2 Op X l3') ds1_j1 n (o*C + c)) (dot12 Op H4 W4 p3' cot3 n (o*C + c))))
      = dot2 Op (tH x) (tW x) h dx n c).
Proof. exact @scat_j2_vjp. Qed.
Print Assumptions C09_scat_j2_vjp.
(* what linmag is: the directional derivative of the magnitudes, phase-weighted (C09_smag_dx/dy give the phases as the partial derivatives) *)
Theorem C09_linmag_entry :
  forall (T:Type) (Op:Ops T) (C:Z) (ph p':list (@ten T)) n q i j,
  tf (linmag Op C ph p') n q i j
  = radd Op (rmul Op (tf (pl Op ph (q / C) 0) n (q mod C) i j) (tf (pl Op p' (q / C) 0) n (q mod C) i j))
            (rmul Op (tf (pl Op ph (q / C) 1) n (q mod C) i j) (tf (pl Op p' (q / C) 1) n (q mod C) i j)).
Proof. intros. reflexivity. Qed.
Print Assumptions C09_linmag_entry.
(* the forward equations assumed by C09_scat_j2_vjp are solvable for every image whose sides are multiples of 8 (non-vacuity) *)
Theorem C09_scat_j2_forward_total :
  forall (T:Type) (Op:Ops T) (Rth:RingOk Op) (X:XOps T) (b:T) (L0 L1:Z) (h0 h1:Z->T),
  1 <= L0 /\ L0 mod 2 = 1 -> 1 <= L1 /\ L1 mod 2 = 1 ->
  forall (L:Z) (H0A H0B H1A H1B:Z->T), 2 <= L /\ L mod 2 = 0 ->
  (forall j, 0 <= j < L -> H0B j = H0A (L-1-j)) -> (forall j, 0 <= j < L -> H1B j = H1A (L-1-j)) ->
  (forall a c:T, rmul Op (radd Op (r1 Op) (r1 Op)) a = rmul Op (radd Op (r1 Op) (r1 Op)) c -> a = c) ->
  forall (x h:@ten T), 8 <= tH x -> tH x mod 8 = 0 -> 8 <= tW x -> tW x mod 8 = 0 -> 0 < tC x ->
  tN h = tN x -> tC h = tC x -> tH h = tH x -> tW h = tW x ->
  exists s0 p1 s0b p2 l3 p3 s0' p1' s0b' p2' l3' p3',
    fwd_j1 Op (xs_ X) x L0 h0 L1 h1 false M_SYMM = Ok (s0, p1) /\
    fwd_j2plus Op (xs_ X) s0 L (rev_filt L H0B) (rev_filt L H0A) L (rev_filt L H1B) (rev_filt L H1A) false = Ok (s0b, p2) /\
    fwd_j1 Op (xs_ X) (force Op (mags Op X b (tC x) p1)) L0 h0 L1 h1 false M_SYMM = Ok (l3, p3) /\
    fwd_j1 Op (xs_ X) h L0 h0 L1 h1 false M_SYMM = Ok (s0', p1') /\
    fwd_j2plus Op (xs_ X) s0' L (rev_filt L H0B) (rev_filt L H0A) L (rev_filt L H1B) (rev_filt L H1A) false = Ok (s0b', p2') /\
    fwd_j1 Op (xs_ X) (linmag Op (tC x) (phases Op X b false (tC x) p1) p1') L0 h0 L1 h1 false M_SYMM = Ok (l3', p3').
Proof. exact @scat_j2_forward_total. Qed.
Print Assumptions C09_scat_j2_forward_total.
