(* Case format of the correspondence check: the harness writes the inputs the implementation ran and the
   outputs it produced; [bad] evaluates the model on the same inputs over Z and returns the indices that differ. *)
From PW Require Import Base.Ops Base.Sum Base.Sig Base.Tensor.

Record case := mkCase { c_entry:Z; c_ip:list Z; c_filts:list (list Z); c_ins:list (list Z); c_exp:list Z }.

Notation zten := (@ten Z).
(* tensor encoding: [N;C;H;W] ++ row-major data ; the empty list encodes None *)
Definition dec_ten (l:list Z) : zten :=
  match l with
  | N :: C :: H :: W :: data =>
      force ZOps (mkT N C H W (fun n c i j => nthZ ZOps data (((n*C + c)*H + i)*W + j)))
  | _ => mkT 0 0 0 0 (fun _ _ _ _ => 0)
  end.
Definition dec_opt (l:list Z) : option zten := match l with nil => None | _ => Some (dec_ten l) end.
Definition enc_ten (t:zten) : list Z := shape t ++ flat t.
Definition enc_res (r:res (list zten)) : list Z :=
  match r with Ok ts => concat (map enc_ten ts) | Err c => [-1; c] end.
Definition getl (l:list (list Z)) (k:nat) : list Z := nth k l nil.
Definition geti (l:list Z) (k:nat) : Z := nth k l 0.
Definition filt (l:list (list Z)) (k:nat) : Z -> Z := of_list ZOps (getl l k).
Definition flen (l:list (list Z)) (k:nat) : Z := Z.of_nat (length (getl l k)).

Fixpoint list_eqb (a b:list Z) : bool :=
  match a, b with nil, nil => true | x::a', y::b' => (x =? y) && list_eqb a' b' | _, _ => false end.
Lemma list_eqb_eq a b : list_eqb a b = true -> a = b.
Proof. revert b; induction a as [|x a IH]; intros [|y b]; cbn; try discriminate; auto.
  intros H. apply andb_prop in H as [H1 H2]. f_equal; [lia | auto]. Qed.

Section Bad.
Variable run : case -> list Z.
Fixpoint bad_from (i:Z) (cs:list case) : list Z :=
  match cs with nil => nil | c :: r => if list_eqb (run c) (c_exp c) then bad_from (i+1) r else i :: bad_from (i+1) r end.
Definition bad (cs:list case) : list Z := bad_from 0 cs.
End Bad.
