(* Validation of the translator: the generated scalar functions evaluated in Coq, compared with the Python functions. *)
From Coq Require Import String.
From PW Require Import Base.Ops Base.Tensor Run.Case Gen.Dims Gen.Modes Gen.Tables.
Open Scope Z_scope.

Definition mode_names : list string :=
  ["zero"; "symmetric"; "per"; "periodization"; "constant"; "reflect"; "replicate"; "periodic"; "foo"; ""]%string.
Fixpoint name_index (s:string) (l:list string) (i:Z) : Z :=
  match l with nil => -1 | x :: r => if String.eqb s x then i else name_index s r (i+1) end.
Definition optZ (o:option Z) : Z := match o with Some v => v | None => -1 end.
Definition optS (o:option string) : Z := match o with Some s => name_index s mode_names 0 | None => -1 end.

Definition run_gen (c:case) : list Z :=
  let ip := c_ip c in
  match c_entry c with
  | 201 => let '(a,b,h,w) := get_dimensions5 (geti ip 0) (geti ip 1) in
           let '(a6,b6,h6,w6) := get_dimensions6 (geti ip 0) (geti ip 1) in [a;b;h;w;a6;b6;h6;w6]
  | 202 => let nm := nth (Z.to_nat (geti ip 0)) mode_names ""%string in
           [optZ (dwt_mode_to_int nm); optZ (scat_mode_to_int nm)]
  | 203 => [optS (dwt_int_to_mode (geti ip 0)); optS (scat_int_to_mode (geti ip 0))]
  | 301 => match nth_error tab_all (Z.to_nat (geti ip 0)) with
           | Some (_, _, t) => flat_map (fun d => [fst d; snd d]) t | None => [-98] end
  | _ => [-99]
  end.
