From PW Require Import Base.Ops Base.Sum Base.Sig Base.Tensor Model.Dwt Run.Case.

Definition pair_l {A} (r:res (A*A)) : res (list A) := match r with Ok (a,b) => Ok [a;b] | Err c => Err c end.
Definition one_l {A} (r:res A) : res (list A) := match r with Ok a => Ok [a] | Err c => Err c end.
Definition pyr_l {A} (r:res (A*list A)) : res (list A) := match r with Ok (a,l) => Ok (a::l) | Err c => Err c end.

(* entry numbers are shared with tools/corr_dwt.py *)
Definition run_dwt (c:case) : list Z :=
  let ip := c_ip c in let fl := c_filts c in let ins := c_ins c in
  let x k := dec_ten (getl ins k) in
  let f := filt fl in let L := flen fl in
  enc_res
  match c_entry c with
  | 1 => one_l (afb1d ZOps (x 0%nat) (L 0%nat) (f 0%nat) (f 1%nat) (geti ip 0) (geti ip 1))
  | 2 => one_l (sfb1d ZOps (x 0%nat) (x 1%nat) (L 0%nat) (f 0%nat) (f 1%nat) (geti ip 0) (geti ip 1))
  | 3 => pair_l (AFB1D_fwd ZOps (x 0%nat) (L 0%nat) (f 0%nat) (f 1%nat) (geti ip 0))
  | 4 => one_l (AFB1D_bwd ZOps (geti ip 1) (x 0%nat) (x 1%nat) (L 0%nat) (f 0%nat) (f 1%nat) (geti ip 0))
  | 5 => one_l (SFB1D_fwd ZOps (x 0%nat) (x 1%nat) (L 0%nat) (f 0%nat) (f 1%nat) (geti ip 0))
  | 6 => pair_l (SFB1D_bwd ZOps (x 0%nat) (L 0%nat) (f 0%nat) (f 1%nat) (geti ip 0))
  (* 2-D: filters 0,1 = row pair, 2,3 = column pair *)
  | 7 => pair_l (AFB2D_fwd ZOps (x 0%nat) (L 0%nat) (f 0%nat) (f 1%nat) (L 2%nat) (f 2%nat) (f 3%nat) (geti ip 0))
  | 8 => one_l (AFB2D_bwd ZOps (geti ip 1) (geti ip 2) (x 0%nat) (x 1%nat) (L 0%nat) (f 0%nat) (f 1%nat) (L 2%nat) (f 2%nat) (f 3%nat) (geti ip 0))
  | 9 => one_l (SFB2D_fwd ZOps (x 0%nat) (x 1%nat) (L 0%nat) (f 0%nat) (f 1%nat) (L 2%nat) (f 2%nat) (f 3%nat) (geti ip 0))
  | 10 => pair_l (SFB2D_bwd ZOps (x 0%nat) (L 0%nat) (f 0%nat) (f 1%nat) (L 2%nat) (f 2%nat) (f 3%nat) (geti ip 0))
  | 11 => pyr_l (DWT1DForward ZOps (Z.to_nat (geti ip 1)) (x 0%nat) (L 0%nat) (f 0%nat) (f 1%nat) (geti ip 0))
  | 12 => one_l (DWT1DInverse ZOps (x 0%nat) (map dec_opt (tl ins)) (L 0%nat) (f 0%nat) (f 1%nat) (geti ip 0))
  | 13 => pyr_l (DWTForward ZOps (Z.to_nat (geti ip 1)) (x 0%nat) (L 0%nat) (f 0%nat) (f 1%nat) (L 2%nat) (f 2%nat) (f 3%nat) (geti ip 0))
  | 14 => one_l (DWTInverse ZOps (x 0%nat) (map dec_opt (tl ins)) (L 0%nat) (f 0%nat) (f 1%nat) (L 2%nat) (f 2%nat) (f 3%nat) (geti ip 0))
  | 15 => one_l (afb1d_atrous ZOps (x 0%nat) (L 0%nat) (f 0%nat) (f 1%nat) (geti ip 0) (geti ip 1) (geti ip 2))
  | 16 => one_l (afb2d_atrous ZOps (x 0%nat) (L 0%nat) (f 0%nat) (f 1%nat) (L 2%nat) (f 2%nat) (f 3%nat) (geti ip 0) (geti ip 1))
  | 17 => SWTForward ZOps (Z.to_nat (geti ip 1)) (x 0%nat) (L 0%nat) (f 0%nat) (f 1%nat) (L 2%nat) (f 2%nat) (f 3%nat) (geti ip 0)
  | 18 => one_l (afb2d ZOps (x 0%nat) (L 0%nat) (f 0%nat) (f 1%nat) (L 2%nat) (f 2%nat) (f 3%nat) (geti ip 0))
  | 19 => one_l (sfb2d ZOps (x 0%nat) (x 1%nat) (x 2%nat) (x 3%nat) (L 0%nat) (f 0%nat) (f 1%nat) (L 2%nat) (f 2%nat) (f 3%nat) (geti ip 0))
  (* non-separable: filters 0,1 = column pair, 2,3 = row pair, as passed (not reversed) *)
  | 20 => one_l (afb2d_nonsep ZOps (x 0%nat) (L 0%nat) (f 0%nat) (f 1%nat) (L 2%nat) (f 2%nat) (f 3%nat) (geti ip 0))
  | 21 => one_l (sfb2d_nonsep ZOps (x 0%nat) (L 0%nat) (f 0%nat) (f 1%nat) (L 2%nat) (f 2%nat) (f 3%nat) (geti ip 0))
  | _ => Err 99
  end.
