(* Runners for the scattering layers: (a) over Z with the square root replaced by the identity (exact structural check,
   the harness patches torch.sqrt the same way), (b) over primitive floats (values and gradients, compared with a tolerance). *)
From Coq Require Import PrimFloat.
From PW Require Import Base.Ops Base.Sum Base.Sig Base.Tensor Model.Dwt Model.Dtcwt Model.Scat Run.Case.

Definition ZX : XOps Z := mkX Z 1 1 (fun v => v) Z.div.
Definition b2z (z:Z) : bool := z =? 1.

(* ip = [rot; colour; mode; bias] ; filters: h0o h1o h2o | h0a h0b h1a h1b h2a h2b *)
Definition run_scatz (c:case) : list Z :=
  let ip := c_ip c in let fl := c_filts c in let ins := c_ins c in
  let x k := dec_ten (getl ins k) in
  let f := filt fl in let L := flen fl in
  let rot := b2z (geti ip 0) in let col := b2z (geti ip 1) in let mode := geti ip 2 in let bias := geti ip 3 in
  enc_res
  match c_entry c with
  | 50 => match ScatLayer ZOps ZX bias rot col (x 0%nat) (L 0%nat) (f 0%nat) (L 1%nat) (f 1%nat) (L 2%nat) (f 2%nat) mode with Ok y => Ok [y] | Err e => Err e end
  | 51 => match ScatLayerj2 ZOps ZX bias rot col (x 0%nat) (L 0%nat) (f 0%nat) (L 1%nat) (f 1%nat) (L 2%nat) (f 2%nat)
                 (L 3%nat) (f 3%nat) (f 4%nat) (L 5%nat) (f 5%nat) (f 6%nat) (L 7%nat) (f 7%nat) (f 8%nat) mode with Ok y => Ok [y] | Err e => Err e end
  | _ => Err 99
  end.

(* ---- floats ---- *)
Open Scope float_scope.
Definition FOps : Ops float := mkOps float 0 1 PrimFloat.add PrimFloat.mul PrimFloat.sub PrimFloat.opp.
Definition FX : XOps float := mkX float 0x1.6a09e667f3bcdp-1 0.25 PrimFloat.sqrt PrimFloat.div.
Close Scope float_scope.
Notation ften := (@ten float).

Record fcase := mkF { f_entry:Z; f_ip:list Z; f_bias:float; f_filts:list (list float);
                      f_ins:list (list Z * list float); f_exp:list float; f_tol:float }.
Definition nthF (l:list float) (i:Z) : float := if i <? 0 then 0%float else nth (Z.to_nat i) l 0%float.
Definition dec_ften (p:list Z * list float) : ften :=
  match fst p with
  | N :: C :: H :: W :: _ => force FOps (mkT N C H W (fun n c i j => nthF (snd p) (((n*C + c)*H + i)*W + j)))
  | _ => mkT 0 0 0 0 (fun _ _ _ _ => 0%float)
  end.
Definition ffilt (l:list (list float)) (k:nat) : Z -> float := nthF (nth k l nil).
Definition fflen (l:list (list float)) (k:nat) : Z := Z.of_nat (length (nth k l nil)).
Definition fout (r:res ften) : list float := match r with Ok y => flat y | Err _ => nil end.

Definition run_scatf (c:fcase) : list float :=
  let ip := f_ip c in let fl := f_filts c in
  let x k := dec_ften (nth k (f_ins c) (nil, nil)) in
  let f := ffilt fl in let L := fflen fl in
  let rot := b2z (geti ip 0) in let col := b2z (geti ip 1) in let mode := geti ip 2 in let bias := f_bias c in
  match f_entry c with
  | 60 => fout (ScatLayer FOps FX bias rot col (x 0%nat) (L 0%nat) (f 0%nat) (L 1%nat) (f 1%nat) (L 2%nat) (f 2%nat) mode)
  | 61 => fout (ScatLayerj2 FOps FX bias rot col (x 0%nat) (L 0%nat) (f 0%nat) (L 1%nat) (f 1%nat) (L 2%nat) (f 2%nat)
                 (L 3%nat) (f 3%nat) (f 4%nat) (L 5%nat) (f 5%nat) (f 6%nat) (L 7%nat) (f 7%nat) (f 8%nat) mode)
  | 62 => fout (scat_j1_bwd FOps FX bias rot col (x 0%nat) (x 1%nat) (L 0%nat) (f 0%nat) (L 1%nat) (f 1%nat) (L 2%nat) (f 2%nat) mode)
  | 63 => fout (scat_j2_bwd FOps FX bias rot col (x 0%nat) (x 1%nat) (L 0%nat) (f 0%nat) (L 1%nat) (f 1%nat) (L 2%nat) (f 2%nat)
                 (L 3%nat) (f 3%nat) (f 4%nat) (L 5%nat) (f 5%nat) (f 6%nat) (L 7%nat) (f 7%nat) (f 8%nat) mode)
  | 64 => (* smooth magnitude and its two partial derivatives at (x, y) = first two data entries *)
          let xx := nthF (snd (nth 0%nat (f_ins c) (nil,nil))) 0 in let yy := nthF (snd (nth 0%nat (f_ins c) (nil,nil))) 1 in
          let r := PrimFloat.sqrt (xx*xx + yy*yy + bias*bias)%float in
          [(r - bias)%float; (xx / r)%float; (yy / r)%float]
  | _ => nil
  end.

Fixpoint close_list (tol:float) (a e:list float) : bool :=
  match a, e with
  | nil, nil => true
  | x :: a', y :: e' => (PrimFloat.leb (PrimFloat.abs (x - y)%float) tol) && close_list tol a' e'
  | _, _ => false
  end.
Fixpoint fbad_from (i:Z) (cs:list fcase) : list Z :=
  match cs with nil => nil | c :: r => if close_list (f_tol c) (run_scatf c) (f_exp c) then fbad_from (i+1) r else i :: fbad_from (i+1) r end.
Definition fbad (cs:list fcase) : list Z := fbad_from 0 cs.
