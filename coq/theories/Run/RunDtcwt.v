From PW Require Import Base.Ops Base.Sum Base.Sig Base.Tensor Model.Dwt Model.Dtcwt Run.Case.

Definition opt_ten (l:list Z) : option zten := dec_opt l.
Fixpoint firstn_ten (k:nat) (l:list (list Z)) : list zten := map dec_ten (firstn k l).
Definition lvl_out (p:zten * list zten) : list zten := fst p :: snd p.
Definition is1 (z:Z) : bool := z =? 1.

(* split the plane inputs of the present levels: mask (1 = present, 12 planes) *)
Fixpoint split_levels (mask:list Z) (ins:list (list Z)) : list (list zten) :=
  match mask with
  | nil => nil
  | m :: rest => if m =? 1 then map dec_ten (firstn 12 ins) :: split_levels rest (skipn 12 ins)
                 else nil :: split_levels rest ins
  end.

Definition run_dtcwt (c:case) : list Z :=
  let ip := c_ip c in let fl := c_filts c in let ins := c_ins c in
  let x k := dec_ten (getl ins k) in
  let f := filt fl in let L := flen fl in
  let one := 1 in
  enc_res
  match c_entry c with
  | 30 => match linefilter ZOps (geti ip 0) (x 0%nat) (L 0%nat) (f 0%nat) (geti ip 1) with Ok y => Ok [y] | Err e => Err e end
  | 31 => match dfilt ZOps (geti ip 0) (x 0%nat) (L 0%nat) (f 0%nat) (f 1%nat) (is1 (geti ip 1)) with Ok y => Ok [y] | Err e => Err e end
  | 32 => match ifilt ZOps (geti ip 0) (x 0%nat) (L 0%nat) (f 0%nat) (f 1%nat) (is1 (geti ip 1)) with Ok y => Ok [y] | Err e => Err e end
  | 33 => let '((a,b),(c',d)) := q2c ZOps one (x 0%nat) in Ok [a;b;c';d]
  | 34 => Ok [c2q ZOps one (x 0%nat) (x 1%nat) (x 2%nat) (x 3%nat)]
  | 35 => match fwd_j1 ZOps one (x 0%nat) (L 0%nat) (f 0%nat) (L 1%nat) (f 1%nat) (is1 (geti ip 0)) (geti ip 1) with
          | Ok p => Ok (lvl_out p) | Err e => Err e end
  | 36 => match fwd_j2plus ZOps one (x 0%nat) (L 0%nat) (f 0%nat) (f 1%nat) (L 2%nat) (f 2%nat) (f 3%nat) (is1 (geti ip 0)) with
          | Ok p => Ok (lvl_out p) | Err e => Err e end
  | 37 => match inv_j1 ZOps one (opt_ten (getl ins 0)) (map dec_ten (tl ins)) (L 0%nat) (f 0%nat) (L 1%nat) (f 1%nat) (geti ip 0) with
          | Ok y => Ok [y] | Err e => Err e end
  | 38 => match inv_j2plus ZOps one (opt_ten (getl ins 0)) (map dec_ten (tl ins)) (L 0%nat) (f 0%nat) (f 1%nat) (L 2%nat) (f 2%nat) (f 3%nat) with
          | Ok y => Ok [y] | Err e => Err e end
  (* modules: filters h0o h1o h0a h0b h1a h1b ; ip = mode :: skip mask *)
  | 39 => match DTCWTForward ZOps one (map is1 (tl ip)) (x 0%nat) (L 0%nat) (f 0%nat) (L 1%nat) (f 1%nat)
                  (L 2%nat) (f 2%nat) (f 3%nat) (L 4%nat) (f 4%nat) (f 5%nat) (geti ip 0) with
          | Ok ls => Ok (concat (map lvl_out ls)) | Err e => Err e end
  | 40 => match DTCWTInverse ZOps one (opt_ten (getl ins 0)) (split_levels (tl ip) (tl ins)) (L 0%nat) (f 0%nat) (L 1%nat) (f 1%nat)
                  (L 2%nat) (f 2%nat) (f 3%nat) (L 4%nat) (f 4%nat) (f 5%nat) (geti ip 0) with
          | Ok y => Ok [y] | Err e => Err e end
  | _ => Err 99
  end.
