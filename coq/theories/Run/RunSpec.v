(* Correspondence B: the closed-form specs evaluated over Z, to be compared with PyWavelets on the same integer data. *)
From PW Require Import Base.Ops Base.Sum Base.Sig Base.Tensor Spec.Line Spec.DtcwtRef Proofs.SwtProofs Run.Case.

Definition line_of (t:zten) : Z -> Z := fun q => tf t 0 0 0 q.
Definition ten_of_line (n:Z) (f:Z->Z) : zten := force ZOps (mkT 1 1 1 n (fun _ _ _ k => f k)).

Definition run_spec (c:case) : list Z :=
  let ip := c_ip c in let fl := c_filts c in let ins := c_ins c in
  let x k := dec_ten (getl ins k) in
  let f := filt fl in let L := flen fl in
  enc_res
  match c_entry c with
  | 101 => let N := tW (x 0%nat) in
           Ok [ten_of_line ((N + L 0%nat - 1)/2) (pywt_dwt ZOps (geti ip 0) (L 0%nat) N (f 0%nat) (line_of (x 0%nat)))]
  | 102 => let N := tW (x 0%nat) in
           Ok [ten_of_line (even_len N / 2) (pywt_dwt_per ZOps (L 0%nat) N (f 0%nat) (line_of (x 0%nat)))]
  | 103 => let n := tW (x 0%nat) in
           Ok [ten_of_line (2*n - L 0%nat + 2) (syn ZOps (L 0%nat) n (f 0%nat) (f 1%nat) (line_of (x 0%nat)) (line_of (x 1%nat)))]
  | 104 => let n := tW (x 0%nat) in
           Ok [ten_of_line (2*n) (syn_per ZOps (L 0%nat) n (f 0%nat) (f 1%nat) (line_of (x 0%nat)) (line_of (x 1%nat)))]
  | 105 => let N := tW (x 0%nat) in
           Ok [ten_of_line N (pywt_swt ZOps (L 0%nat) N (geti ip 0) (f 0%nat) (line_of (x 0%nat)))]
  (* reference dtcwt package, one column (H = r, W = 1 in the encoding: (1,1,1,r)) *)
  | 110 => let r := tW (x 0%nat) in Ok [ten_of_line r (ref_colfilter ZOps (L 0%nat) r (f 0%nat) (line_of (x 0%nat)))]
  | 111 => let r := tW (x 0%nat) in Ok [ten_of_line (r/2) (ref_coldfilt ZOps (L 0%nat) r (f 0%nat) (f 1%nat) (line_of (x 0%nat)) (geti ip 0 =? 1))]
  | 112 => let r := tW (x 0%nat) in Ok [ten_of_line (2*r) (ref_colifilt ZOps (L 0%nat) r (f 0%nat) (f 1%nat) (line_of (x 0%nat)) (geti ip 0 =? 1))]
  | _ => Err 99
  end.
